#!/usr/bin/env python3
"""Regenerate MANIFEST.json from the table below (kept next to the checks so that the
claimed list is always the list of check modules that exist)."""
import json, os, sys
HERE = os.path.dirname(os.path.abspath(__file__))
props = {json.loads(l)["id"]: json.loads(l) for l in open(os.path.join(HERE, "properties.jsonl"))}

CLAIMS = {
 "C01": ("Pipeline.tla / PipelineTrace.tla",
         "Pipeline.tla is checked exhaustively by TLC (about 65 node instances to length 2 -- incl. null-configured parameters, in-place and context-writing elements plain / sliced / swept, context-key-bound context processors --, five focus libraries to length 4/5, invariants + action properties) and every emitted terminal behaviour is replayed step by step into semantiva.Pipeline (spec->impl); recorded executions of longer random programs are batch-validated against the spec's own actions (impl->spec).",
         "bounded by the constants in evidence; trusted: abstract/concrete library pairing (gamma), float(n) exact for |n| < 2^31; a handful of fixed pipelines is also run with awkward context values no node reads (numpy arrays, NaN, generators, ...)",
         "TLA+ spec + TLC exhaustive check; replay of TLC-emitted behaviours into the code; TLC batch trace validation of recorded runs"),
 "C02": ("Inspection.tla",
         "Inspection.tla states a two-pass order-sensitive inspector and TLC proves Sound and Exact against Pipeline.tla's dynamics for all programs in the bounds; every emitted (program, context, data) case is replayed: real inspection+validation vs real run (code vs code), per-node facts vs the run's context diff, origins vs the spec's lastWriter provenance.",
         "bounded; truth for parameter provenance is the spec's dynamics, bound to the code by the C01 replay; failure classes recognised from exception type/message",
         "TLA+ spec with theorems checked by TLC; TLC-emitted cases replayed into real inspection + real run"),
 "C06": ("TraceStream.tla / TraceStreamTrace.tla",
         "TraceStream.tla models the traced lifecycle (start, build, node*, end, close) over Pipeline.tla; TLC checks Bracket/SerOrder/OneEnd/OkIffReturned/ClosedOnExit, liveness <>closed and refinement to the untraced spec; every closed behaviour (all failure kinds at every index, incl. construction failure and BaseException abort) is replayed as a real traced run and the JSONL is compared record by record, schema-validated, id/upstream-checked; recorded streams of random programs are batch-validated by TLC.",
         "bounded; JSON schemas taken from the repository's registry; 'closed' = every handle the driver opened reports closed",
         "TLA+ lifecycle spec + TLC; replay of emitted behaviours as traced runs; TLC trace validation of recorded JSONL streams"),
 "C07": ("TraceStream.tla (SER content)",
         "The spec defines each SER's content from the step's pre/post state (context delta, resolved parameters with channel, check verdicts, pre/post payload for digest classes); every emitted behaviour is replayed as a traced run under four host time zones and each real SER is compared field by field; digests are checked to be content functions and to chain; timestamps are compared with harness-measured UTC brackets.",
         "the true instant, and the host time zone switch (TZ + tzset), are harness measurements (trusted); bounded",
         "TLA+ spec of SER content + TLC; field-by-field comparison of real SERs with spec-predicted SERs"),
 "C10": ("TraceStream.tla (PROPERTY Untraced)",
         "TLC checks that every traced behaviour projects onto an untraced Pipeline.tla behaviour (trace variables are history variables); each emitted behaviour is run untraced vs traced at a detail level, traced twice with fresh Pipelines, twice through one reused Pipeline and again after the worker's other history; normalised traces must be identical; hostile payload hooks (raising __len__/__repr__/to_bytes/__eq__, generators) must not change results.",
         "volatile fields removed: run_id, timestamp, seq, timing; bounded; plus: targets traced in a fresh interpreter with / without a history of cosmetic twins and near misses, the configuration edited in place after the Pipeline was built, hostile payload values (mixed-key mappings, surrogates, numpy arrays, NaN, non-JSON exception arguments)",
         "TLA+ refinement check with TLC; differential replay traced vs untraced and run vs re-run"),
}
PLANNED = {
 "C03": "Sweep.tla", "C04": "Identity.tla", "C05": "Identity.tla", "C08": "RunSpace.tla", "C09": "Cli.tla",
 "C11": "SafeExpr.tla", "C12": "ExprSig.tla", "C13": "Aggregator.tla", "C14": "Transport.tla",
 "C15": "JobQueue.tla", "C16": "Factories.tla", "C17": "Cli.tla", "C18": "History.tla",
}
sys.path.insert(0, HERE)
try:
    from manifest_claims import MORE, NA
    CLAIMS.update(MORE)
except Exception:
    NA = {}
checks = []
for pid in sorted(CLAIMS):
    eng, text, note, tech = CLAIMS[pid]
    checks.append({
        "property_id": pid, "quick_cmd": f"./check {pid} --tier quick", "thorough_cmd": f"./check {pid} --tier thorough",
        "evidence_file": f"evidence/{pid}.json", "replay_cmd_template": f"./check {pid} --replay {{path}}", "engine": eng,
        "level_claimed": {"category": "model_checking", "text": text, "design_ref": f"DESIGN.md section 4/{pid}"},
        "level_note": note, "technique": tech})
na = []
for pid in sorted(props):
    if pid in CLAIMS:
        continue
    na.append({"property_id": pid, "reason": NA.get(pid, f"check not built yet in this round (planned spec module: {PLANNED.get(pid, '?')})")})
hooks_commits = []
m = {
 "version": 1, "setup_cmd": "./setup.sh",
 "hooks": {"guard": "SEMANTIVA_VERIF",
           "enable": "no source hooks are used: every observation goes through public seams (orchestrator / trace-driver / transport subclasses handed to Pipeline, module-namespace shims); the guard name is reserved and currently guards nothing",
           "baseline_off_cmd": "cd /repo && /venv/bin/python -m pytest -ra -q -p no:cacheprovider --timeout=900 --continue-on-collection-errors",
           "source_commits": hooks_commits, "add_only": True},
 "engines": [
  {"name": "tlc-spec", "path": "spec/ mc/", "serves_properties": sorted(CLAIMS), "kind_free_text": "explicit TLA+ specification checked with TLC 1.8"},
  {"name": "replay-harness", "path": "harness/vharness", "serves_properties": sorted(CLAIMS), "kind_free_text": "TLC-emitted behaviours concretised and replayed into the real code (spec->impl)"},
  {"name": "trace-validator", "path": "spec/*Trace.tla", "serves_properties": [p for p in sorted(CLAIMS) if p in ("C01","C06","C13","C14","C15")], "kind_free_text": "executions recorded from the real code checked against the spec's actions by TLC (impl->spec)"}],
 "checks": checks, "not_applicable": na,
 "notes": "see DESIGN.md; known_findings.json lists repaired defects (status fixed) and open findings"}
json.dump(m, open(os.path.join(HERE, "MANIFEST.json"), "w"), indent=1)
print("claimed:", sorted(CLAIMS), "na:", [x["property_id"] for x in na])
