--------------------------- MODULE TransportTrace ---------------------------
(***************************************************************************)
(* Batch validation of histories recorded from the real transport under    *)
(* the line scheduler.  Events (logged at the linearization points, i.e.   *)
(* inside deque.append / deque.popleft which run under the channel lock):  *)
(*   {op:"pub", ch, m}   {op:"pop", ch, m, pat}   {op:"end"}               *)
(* "end" is logged after every thread finished and a final wildcard        *)
(* subscription has been drained: all queues must then be empty.           *)
(* Messages are numbered in global append order, so ChannelFifo applies.   *)
(***************************************************************************)
EXTENDS Transport, Json, IOUtils, TLCExt

Traces == JsonDeserialize(IOEnv.TRACE_FILE)
VARIABLES tid, ix
trvars == <<tvars, tid, ix>>
Ev == Traces[tid][ix]

TrInit == Init /\ tid \in 1..Len(Traces) /\ ix = 1
Consume == ix <= Len(Traces[tid]) /\ ix' = ix + 1 /\ UNCHANGED tid
TrPub == Consume /\ Ev.op = "pub" /\ Publish(Ev.ch, Ev.m)
TrPop == /\ Consume /\ Ev.op = "pop" /\ Deliver(Ev.ch, Ev.pat)
         /\ delivered'[Len(delivered')][2] = Ev.m
TrEnd == /\ Consume /\ Ev.op = "end" /\ \A c \in Channels : queues[c] = <<>>
         /\ UNCHANGED tvars
TrNext == TrPub \/ TrPop \/ TrEnd
TrSpec == TrInit /\ [][TrNext]_trvars

Mark == (ix = Len(Traces[tid]) + 1) => TLCSet(1, TLCGet(1) \cup {tid})
Hi == TLCSet(2, IF ix > TLCGet(2) THEN ix ELSE TLCGet(2))
Post == /\ PrintT(<<"ACCEPTED", Cardinality(TLCGet(1)), Len(Traces)>>)
        /\ LET rej == (1..Len(Traces)) \ TLCGet(1) IN IF rej = {} THEN TRUE ELSE PrintT(<<"REJECTED", rej>>)
PostDiag == PrintT(<<"MATCHED", TLCGet(2) - 1>>)
ASSUME TLCSet(1, {}) /\ TLCSet(2, 0)
=============================================================================
