------------------------------ MODULE ExprSig ------------------------------
(***************************************************************************)
(* ExpressionSigV1 (normalize_expression_sig_v1 / _dump_ast_commutative):  *)
(* flatten maximal chains of + (resp. * ), normalise the terms, sort them  *)
(* by a fixed total order, rebuild left-associated; everything else is     *)
(* normalised child-wise and keeps its operand order.                      *)
(* Expression trees are tuples:                                            *)
(*   <<"v", name>>  <<"c", n>>  <<"neg", a>>  <<"abs", a>>                 *)
(*   <<op, a, b>>  op in {"+","-","*","//","%","<","min","max"}            *)
(*   <<"if", test, a, b>>                                                  *)
(*   <<"chain", o1, o2, a, b, c>>  the chained comparison  a o1 b o2 c     *)
(*                      o1, o2 in {"<", "<=", ">", ">="}                   *)
(* Theorems checked by TLC for all trees up to MaxSize nodes:              *)
(*   NormPreservesValue, ACKeepsNorm, NormIdempotent                       *)
(* and every tree is emitted with its AC variants and single-point         *)
(* mutations, each flagged with "same normal form?", for the code check.   *)
(***************************************************************************)
EXTENDS Integers, Sequences, FiniteSets, TLC, Json

CONSTANTS MaxSize, Grid      \* Grid: set of <<x, y>> assignments

Vars   == {1, 2}                     \* 1 = x, 2 = y
Consts == {0, 1, 2}
Unary  == {"neg", "abs"}
Binary == {"+", "-", "*", "//", "%", "<", "min", "max"}
AC     == {"+", "*"}
CmpOps == {"<", "<=", ">", ">="}
Undef  == 999999                      \* division by zero (propagates)

Leaves == {<<"v", n>> : n \in Vars} \cup {<<"c", n>> : n \in Consts}

\* trees with exactly n nodes
RECURSIVE TreesOf(_)
TreesOf(n) ==
    IF n = 1 THEN Leaves
    ELSE {<<u, a>> : u \in Unary, a \in TreesOf(n - 1)}
         \cup UNION {{<<b, l, r>> : b \in Binary, l \in TreesOf(i), r \in TreesOf(n - 1 - i)} : i \in 1..(n - 2)}
         \cup UNION {{<<"if", t, l, r>> : t \in TreesOf(i), l \in TreesOf(j), r \in TreesOf(n - 1 - i - j)} :
                        <<i, j>> \in {p \in (1..(n - 3)) \X (1..(n - 3)) : p[1] + p[2] <= n - 2}}
         \cup UNION {{<<"chain", o1, o2, a, b, c>> : o1 \in CmpOps, o2 \in CmpOps,
                                                    a \in TreesOf(i), b \in TreesOf(j), c \in TreesOf(n - 1 - i - j)} :
                        <<i, j>> \in {p \in (1..(n - 3)) \X (1..(n - 3)) : p[1] + p[2] <= n - 2}}
AllTrees == UNION {TreesOf(n) : n \in 1..MaxSize}

(****************************** semantics *********************************)
FloorDiv(a, b) == IF b > 0 THEN a \div b ELSE (-a) \div (-b)         \* Python //, b # 0
PyMod(a, b) == a - b * FloorDiv(a, b)
Abs(a) == IF a < 0 THEN -a ELSE a
Min(a, b) == IF a < b THEN a ELSE b
Max(a, b) == IF a < b THEN b ELSE a

Cmp(o, a, b) == CASE o = "<" -> a < b [] o = "<=" -> a <= b [] o = ">" -> a > b [] OTHER -> a >= b
RECURSIVE Eval(_, _)
Eval(t, env) ==
    CASE t[1] = "v" -> env[t[2]]
      [] t[1] = "chain" -> LET a == Eval(t[4], env) b == Eval(t[5], env) c == Eval(t[6], env) IN
                            \* Python evaluates left to right and stops at the first false link
                            IF a = Undef \/ b = Undef THEN Undef
                            ELSE IF ~Cmp(t[2], a, b) THEN 0
                            ELSE IF c = Undef THEN Undef
                            ELSE IF Cmp(t[3], b, c) THEN 1 ELSE 0
      [] t[1] = "c" -> t[2]
      [] t[1] = "neg" -> LET a == Eval(t[2], env) IN IF a = Undef THEN Undef ELSE -a
      [] t[1] = "abs" -> LET a == Eval(t[2], env) IN IF a = Undef THEN Undef ELSE Abs(a)
      [] t[1] = "if" -> LET c == Eval(t[2], env) IN
                         IF c = Undef THEN Undef ELSE IF c # 0 THEN Eval(t[3], env) ELSE Eval(t[4], env)
      [] OTHER -> LET a == Eval(t[2], env) b == Eval(t[3], env) IN
                  IF a = Undef \/ b = Undef THEN Undef
                  ELSE CASE t[1] = "+" -> a + b [] t[1] = "-" -> a - b [] t[1] = "*" -> a * b
                         [] t[1] = "//" -> IF b = 0 THEN Undef ELSE FloorDiv(a, b)
                         [] t[1] = "%" -> IF b = 0 THEN Undef ELSE PyMod(a, b)
                         [] t[1] = "<" -> IF a < b THEN 1 ELSE 0
                         [] t[1] = "min" -> Min(a, b) [] t[1] = "max" -> Max(a, b)
\* note: Python evaluates `a < b` to True/False, which behave as 1/0 in arithmetic

(****************************** a total order on trees ********************)
OpCode(s) == CASE s = "v" -> 1 [] s = "c" -> 2 [] s = "neg" -> 3 [] s = "abs" -> 4 [] s = "+" -> 5
               [] s = "-" -> 6 [] s = "*" -> 7 [] s = "//" -> 8 [] s = "%" -> 9 [] s = "<" -> 10
               [] s = "min" -> 11 [] s = "max" -> 12 [] s = "if" -> 13 [] s = "chain" -> 14
               [] s = "<=" -> 15 [] s = ">" -> 16 [] s = ">=" -> 17
RECURSIVE Enc(_)
Enc(t) == CASE t[1] = "v" -> <<1, t[2]>>
            [] t[1] = "c" -> <<2, t[2]>>
            [] t[1] \in Unary -> <<OpCode(t[1])>> \o Enc(t[2])
            [] t[1] = "if" -> <<13>> \o Enc(t[2]) \o Enc(t[3]) \o Enc(t[4])
            [] t[1] = "chain" -> <<14, OpCode(t[2]), OpCode(t[3])>> \o Enc(t[4]) \o Enc(t[5]) \o Enc(t[6])
            [] OTHER -> <<OpCode(t[1])>> \o Enc(t[2]) \o Enc(t[3])
RECURSIVE LexLess(_, _)
LexLess(s, u) == IF s = <<>> THEN u # <<>>
                 ELSE IF u = <<>> THEN FALSE
                 ELSE IF Head(s) # Head(u) THEN Head(s) < Head(u)
                 ELSE LexLess(Tail(s), Tail(u))
Less(a, b) == LexLess(Enc(a), Enc(b))

RECURSIVE InsertTree(_, _)
InsertTree(x, s) == IF s = <<>> THEN <<x>>
                ELSE IF Less(Head(s), x) THEN <<Head(s)>> \o InsertTree(x, Tail(s)) ELSE <<x>> \o s
RECURSIVE SortTrees(_)
SortTrees(s) == IF s = <<>> THEN <<>> ELSE InsertTree(Head(s), SortTrees(Tail(s)))

(****************************** normal form *******************************)
RECURSIVE Terms(_, _)
Terms(op, t) == IF t[1] = op THEN Terms(op, t[2]) \o Terms(op, t[3]) ELSE <<t>>
RECURSIVE Rebuild(_, _)
Rebuild(op, s) == IF Len(s) = 1 THEN s[1] ELSE <<op, Rebuild(op, SubSeq(s, 1, Len(s) - 1)), s[Len(s)]>>

RECURSIVE Norm(_)
Norm(t) ==
    CASE t[1] \in {"v", "c"} -> t
      [] t[1] \in Unary -> <<t[1], Norm(t[2])>>
      [] t[1] = "if" -> <<"if", Norm(t[2]), Norm(t[3]), Norm(t[4])>>
      [] t[1] = "chain" -> <<"chain", t[2], t[3], Norm(t[4]), Norm(t[5]), Norm(t[6])>>
      [] t[1] \in AC -> LET ts == Terms(t[1], t)
                            ns == [i \in 1..Len(ts) |-> Norm(ts[i])]
                        IN Rebuild(t[1], SortTrees(ns))
      [] OTHER -> <<t[1], Norm(t[2]), Norm(t[3])>>

(****************************** rewrite edges *****************************)
RootAC(t) ==
    IF t[1] \notin AC THEN {}
    ELSE {<<t[1], t[3], t[2]>>}
         \cup (IF t[2][1] = t[1] THEN {<<t[1], t[2][2], <<t[1], t[2][3], t[3]>>>>} ELSE {})
         \cup (IF t[3][1] = t[1] THEN {<<t[1], <<t[1], t[2], t[3][2]>>, t[3][3]>>} ELSE {})
RECURSIVE Variants(_)
Variants(t) ==
    CASE t[1] \in {"v", "c"} -> {}
      [] t[1] \in Unary -> {<<t[1], a>> : a \in Variants(t[2])}
      [] t[1] = "if" -> {<<"if", a, t[3], t[4]>> : a \in Variants(t[2])}
                        \cup {<<"if", t[2], a, t[4]>> : a \in Variants(t[3])}
                        \cup {<<"if", t[2], t[3], a>> : a \in Variants(t[4])}
      [] t[1] = "chain" -> {<<"chain", t[2], t[3], a, t[5], t[6]>> : a \in Variants(t[4])}
                           \cup {<<"chain", t[2], t[3], t[4], a, t[6]>> : a \in Variants(t[5])}
                           \cup {<<"chain", t[2], t[3], t[4], t[5], a>> : a \in Variants(t[6])}
      [] OTHER -> RootAC(t) \cup {<<t[1], a, t[3]>> : a \in Variants(t[2])}
                            \cup {<<t[1], t[2], a>> : a \in Variants(t[3])}

\* single-point mutations at the root or in a direct child
RootMut(t) ==
    CASE t[1] = "v" -> {<<"v", 3 - t[2]>>}
      [] t[1] = "c" -> {<<"c", (t[2] + 1) % 3>>}
      [] t[1] = "neg" -> {<<"abs", t[2]>>}
      [] t[1] = "abs" -> {<<"neg", t[2]>>}
      [] t[1] = "if" -> {<<"if", t[2], t[4], t[3]>>}
      [] t[1] = "chain" -> {<<"chain", t[2], t[3], t[6], t[5], t[4]>>,          \* operands reversed, operators kept
                            <<"chain", t[3], t[2], t[4], t[5], t[6]>>,          \* the two operators exchanged
                            <<"chain", t[3], t[2], t[6], t[5], t[4]>>}          \* both (NOT the mirror image: that needs flipped operators)
      [] t[1] \in {"-", "//", "%", "<"} -> {<<t[1], t[3], t[2]>>}            \* swap non-commutative operands
      [] t[1] = "min" -> {<<"max", t[2], t[3]>>, <<"min", t[3], t[2]>>}      \* change function / positional args
      [] t[1] = "max" -> {<<"min", t[2], t[3]>>}
      [] t[1] = "+" -> {<<"-", t[2], t[3]>>, <<"*", t[2], t[3]>>}
      [] t[1] = "*" -> {<<"+", t[2], t[3]>>}
Mutations(t) ==
    RootMut(t) \cup
    (CASE t[1] \in {"v", "c"} -> {}
       [] t[1] \in Unary -> {<<t[1], a>> : a \in RootMut(t[2])}
       [] t[1] = "if" -> {<<"if", a, t[3], t[4]>> : a \in RootMut(t[2])} \cup {<<"if", t[2], a, t[4]>> : a \in RootMut(t[3])}
       [] t[1] = "chain" -> {<<"chain", t[2], t[3], a, t[5], t[6]>> : a \in RootMut(t[4])}
       [] OTHER -> {<<t[1], a, t[3]>> : a \in RootMut(t[2])} \cup {<<t[1], t[2], a>> : a \in RootMut(t[3])})

(****************************** state machine *****************************)
VARIABLE e
Init == e \in AllTrees
Next == UNCHANGED e
Spec == Init /\ [][Next]_e

SameValue(a, b) == \A env \in Grid : Eval(a, env) = Eval(b, env)
NormPreservesValue == SameValue(Norm(e), e)
NormIdempotent == Norm(Norm(e)) = Norm(e)
ACKeepsNorm == \A v \in Variants(e) : Norm(v) = Norm(e)
\* consequence used by the code check: equal normal forms imply equal values
MutationSound == \A m \in Mutations(e) : (Norm(m) = Norm(e)) => SameValue(m, e)

Case == [t |-> e,
         variants |-> {[t |-> v, same |-> TRUE] : v \in Variants(e)},
         mutations |-> {[t |-> m, same |-> (Norm(m) = Norm(e)), samevalue |-> SameValue(m, e)] : m \in Mutations(e)}]
EmitInv == PrintT(ToJson(Case))
=============================================================================
