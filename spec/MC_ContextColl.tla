--------------------------- MODULE MC_ContextColl ---------------------------
EXTENDS ContextColl
K2 == {"a", "b"}
D(a, b) == [k \in K2 |-> IF k = "a" THEN a ELSE b]
\* start states: empty, global-only, local-only, mixed, a conflict made by the constructor, a local None
Inits == { [g |-> D(-1, -1), ls |-> <<>>],
           [g |-> D(1, -1),  ls |-> <<D(-1, 1)>>],
           [g |-> D(1, -1),  ls |-> <<D(1, -1), D(-1, -1)>>],
           [g |-> D(-1, -1), ls |-> <<D(0, 1), D(1, -1)>>] }
Apps == {D(-1, -1), D(1, -1), D(-1, 0)}
Inits3 == Inits \cup {[g |-> D(-1, 1), ls |-> <<D(1, -1), D(-1, -1), D(0, -1)>>]}
Apps3 == Apps \cup {D(1, 1)}
=============================================================================
