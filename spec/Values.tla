------------------------------- MODULE Values -------------------------------
(***************************************************************************)
(* Abstract payload values shared by every pipeline-level module.          *)
(*                                                                         *)
(* Data channel:  a uniform record [ty, v, items]                          *)
(*    ty = "none"  -> NoDataType()                                         *)
(*    ty = "float" -> FloatDataType(float(v))                              *)
(*    ty = "coll"  -> FloatDataCollection([float(x) : x \in items])        *)
(* Context channel: Keys -> value records [t, v, items, bt, d]             *)
(*    t = "absent"  key not present                                        *)
(*    t = "null"    key present with value None (a parameter then resolves *)
(*                  to None: "name in context.keys()" decides presence)    *)
(*    t = "n"       number float(v)                                        *)
(*    t = "l"       list [float(x) : x \in items]                          *)
(*    t = "s"       a string: the template "x={k}" applied d times to the  *)
(*                  base value (bt,v,items) -- rendering is done on the    *)
(*                  Python side (str(float) is never computed in TLA+)     *)
(* Records are uniform so that TLC can always compare two values.          *)
(***************************************************************************)
EXTENDS Integers, Sequences, SequencesExt, FiniteSets, TLC

NoData      == [ty |-> "none",  v |-> 0, items |-> <<>>]
Float(n)    == [ty |-> "float", v |-> n, items |-> <<>>]
Coll(s)     == [ty |-> "coll",  v |-> 0, items |-> s]

Absent      == [t |-> "absent", v |-> 0, items |-> <<>>, bt |-> "", d |-> 0]
Null        == [t |-> "null", v |-> 0, items |-> <<>>, bt |-> "", d |-> 0]
Num(n)      == [t |-> "n", v |-> n, items |-> <<>>, bt |-> "", d |-> 0]
List(s)     == [t |-> "l", v |-> 0, items |-> s,    bt |-> "", d |-> 0]
Str(val)    == IF val.t = "s"
               THEN [val EXCEPT !.d = val.d + 1]
               ELSE [t |-> "s", v |-> val.v, items |-> val.items, bt |-> val.t, d |-> 1]

IsNum(val)  == val.t = "n"

\* (iterative: contexts may hold lists of several hundred numbers)
SumSeq(s) == FoldLeft(LAMBDA acc, x : acc + x, 0, s)

MapSeq(s, Op(_)) == [i \in 1..Len(s) |-> Op(s[i])]

SeqMax(s) == LET S == {IF s[i] < 0 THEN -s[i] ELSE s[i] : i \in 1..Len(s)}
             IN IF S = {} THEN 0 ELSE CHOOSE m \in S : \A x \in S : x <= m

\* magnitude of a data value / context value, used by state constraints to stay inside
\* the range where float(n) is exact and TLC's 32-bit integers do not overflow
Abs(n) == IF n < 0 THEN -n ELSE n
DataMag(d) == IF d.ty = "float" THEN Abs(d.v) ELSE IF d.ty = "coll" THEN SeqMax(d.items) ELSE 0
=============================================================================
