------------------------------ MODULE Registry ------------------------------
(***************************************************************************)
(* The processor registry / bootstrap-profile state machine                *)
(* (semantiva/registry: ProcessorRegistry, plugin_registry, bootstrap).    *)
(* Not one of the listed properties by itself: it is the mechanism by      *)
(* which queue workers reproduce the master's name resolution (C15) and by *)
(* which identities stay independent of history (C04).                     *)
(*   Register(m)     ProcessorRegistry.register_modules([m]) (idempotent   *)
(*                   per module name until the next Clear)                 *)
(*   Clear           ProcessorRegistry.clear(): processors, registered     *)
(*                   modules, history, loaded extensions, defaults flag    *)
(*   LoadExt(e)      load_extensions([e]): once per interpreter until      *)
(*                   Clear; registers the extension's modules              *)
(*   Resolve(n)      resolve_symbol(n): ensures the default modules first  *)
(*   Capture / Apply current_profile() ... apply_profile(profile)          *)
(***************************************************************************)
EXTENDS Integers, Sequences, FiniteSets, TLC, Json

CONSTANTS Modules, Defaults, Exts, ExtModules, NamesOf, ProbeNames, MaxOps
\* Defaults \subseteq Modules; ExtModules[e] \subseteq Modules; NamesOf[m] = names module m provides

VARIABLES registered, history, procs, defaultsLoaded, loadedExts, captured, log, nops
vars == <<registered, history, procs, defaultsLoaded, loadedExts, captured, log, nops>>

Init == /\ registered = {} /\ history = <<>> /\ procs = {} /\ defaultsLoaded = FALSE
        /\ loadedExts = {} /\ captured = {} /\ log = <<>> /\ nops = 0

RegSet(ms, reg, hist, ps) ==   \* result of register_modules(ms) as a record
    LET new == ms \ reg
    IN [registered |-> reg \cup ms, procs |-> ps \cup UNION {NamesOf[m] : m \in new}, new |-> new]

RECURSIVE SeqOf(_)
SeqOf(S) == IF S = {} THEN <<>> ELSE LET x == CHOOSE x \in S : TRUE IN <<x>> \o SeqOf(S \ {x})

Obs(ps) == [n \in ProbeNames |-> n \in ps]

Register(m) == LET r == RegSet({m}, registered, history, procs) IN
               /\ registered' = r.registered /\ procs' = r.procs
               /\ history' = history \o SeqOf(r.new)
               /\ log' = Append(log, [op |-> "register", arg |-> m, obs |-> Obs(r.procs), mods |-> r.registered])
               /\ UNCHANGED <<defaultsLoaded, loadedExts, captured>>
Clear == /\ registered' = {} /\ history' = <<>> /\ procs' = {} /\ defaultsLoaded' = FALSE /\ loadedExts' = {}
         /\ log' = Append(log, [op |-> "clear", arg |-> "", obs |-> Obs({}), mods |-> {}])
         /\ UNCHANGED captured
LoadExt(e) == LET r == IF e \in loadedExts THEN [registered |-> registered, procs |-> procs, new |-> {}]
                       ELSE RegSet(ExtModules[e], registered, history, procs) IN
              /\ registered' = r.registered /\ procs' = r.procs /\ history' = history \o SeqOf(r.new)
              /\ loadedExts' = loadedExts \cup {e}
              /\ log' = Append(log, [op |-> "loadext", arg |-> e, obs |-> Obs(r.procs), mods |-> r.registered])
              /\ UNCHANGED <<defaultsLoaded, captured>>
\* resolve_symbol ensures the default modules when they were never loaded or the table is empty
Resolve(n) == LET need == ~defaultsLoaded \/ procs = {}
                  r == IF need THEN RegSet(Defaults, registered, history, procs)
                       ELSE [registered |-> registered, procs |-> procs, new |-> {}] IN
              /\ registered' = r.registered /\ procs' = r.procs /\ history' = history \o SeqOf(r.new)
              /\ defaultsLoaded' = TRUE
              /\ log' = Append(log, [op |-> "resolve", arg |-> n, obs |-> Obs(r.procs), mods |-> r.registered,
                                     found |-> n \in r.procs])
              /\ UNCHANGED <<loadedExts, captured>>
Capture == /\ captured' = registered      \* current_profile().modules = sorted(module history)
           /\ log' = Append(log, [op |-> "capture", arg |-> "", obs |-> Obs(procs), mods |-> registered])
           /\ UNCHANGED <<registered, history, procs, defaultsLoaded, loadedExts>>
Apply == LET r == RegSet(Defaults \cup captured, registered, history, procs) IN   \* apply_profile(load_defaults, modules)
         /\ registered' = r.registered /\ procs' = r.procs /\ history' = history \o SeqOf(r.new)
         /\ log' = Append(log, [op |-> "apply", arg |-> "", obs |-> Obs(r.procs), mods |-> r.registered])
         /\ UNCHANGED <<defaultsLoaded, loadedExts, captured>>

Next == /\ nops < MaxOps /\ nops' = nops + 1
        /\ \/ \E m \in Modules : Register(m)
           \/ Clear \/ Capture \/ Apply
           \/ \E e \in Exts : LoadExt(e)
           \/ \E n \in ProbeNames : Resolve(n)
Spec == Init /\ [][Next]_vars

\* names resolve exactly when a registered module provides them
ProcsAreUnionOfRegistered == procs = UNION {NamesOf[m] : m \in registered}
HistoryIsRegistered == {history[i] : i \in 1..Len(history)} = registered /\ Len(history) = Cardinality(registered)
\* profile round trip: after Clear; Apply everything captured resolves again
RoundTrip == (log # <<>> /\ log[Len(log)].op = "apply") => captured \subseteq registered
EmitInv == (nops = MaxOps) => PrintT(ToJson(log))
=============================================================================
