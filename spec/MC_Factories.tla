---------------------------- MODULE MC_Factories ----------------------------
EXTENDS Factories, Instances
ExtraNodes == { N0("PSrc"), N0("PSrcInj"), N0("PSink"), NK("ProbeP", "a", ""), N0("Touch") }
AllConfigs == FullNodes \cup FeedNodes \cup SliceNodes \cup CtxNodes \cup FailNodes \cup ExtraNodes
=============================================================================
