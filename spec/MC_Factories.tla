---------------------------- MODULE MC_Factories ----------------------------
EXTENDS Factories, Instances
ExtraNodes == { NK("ProbeP", "w", "") }
AllConfigs == FullNodes \cup FeedNodes \cup SliceNodes \cup CtxNodes \cup FailNodes \cup ExtraNodes
=============================================================================
