------------------------------ MODULE Identity ------------------------------
(***************************************************************************)
(* Configuration identity: what a YAML pipeline text MEANS versus how it   *)
(* is written.  A configuration text is modelled with exactly the          *)
(* degrees of freedom a YAML author has:                                   *)
(*   cfg = Seq of node texts  [proc, ps, flow, quoted, alias, sweep]       *)
(*   alias: the node is written as a YAML alias of an earlier equal node   *)
(*   ps   : SEQUENCE of parameter entries [k, v, sp, sub] -- ordered, each *)
(*          scalar with a spelling index sp (1.0 / 1.00 / +1.0 / 1e0), sub *)
(*          a nested mapping given as a sequence of [k, v, sp] entries     *)
(*   flow : flow ({a: 1}) vs block layout; quoted: quoted processor name   *)
(*   sweep: NoSweep or [vals (Seq), ints (values written as YAML ints, a     *)
(*          different type, not a spelling), mode, bc, expr (tree), coll, el] *)
(*          ctx2: the sweep has two more variables u, w read from_context;   *)
(*          vorder: the order in which the variables mapping lists them      *)
(*          vname: the name the author gave the swept variable ("t", or a    *)
(*          name that collides with a field of the framework's own metadata, *)
(*          "expr"); renaming it is semantic (it names the published         *)
(*          <vname>_values key)                                              *)
(* Meaning(cfg) forgets order, spelling, layout and the operand order of   *)
(* + and * in the sweep expression.  Cosmetic actions must keep Meaning,   *)
(* semantic actions must change it (C04 / C05); every edge is emitted and  *)
(* replayed: both texts are rendered and the code's identities compared.   *)
(***************************************************************************)
EXTENDS Integers, Sequences, FiniteSets, TLC, Json

CONSTANTS Seeds,        \* set of seed configurations
          MaxSteps      \* rewrite steps explored from each seed

VARIABLES cfg, last, steps, base
vars == <<cfg, last, steps, base>>

\* rng: the sweep has one more variable r given as a RANGE [lo, hi, steps, endpoint, scale]; expl: the author wrote the
\* defaults (endpoint: true, scale: linear) out -- a spelling, not a meaning
NoRng == [on |-> FALSE, lo |-> 0, hi |-> 0, steps |-> 0, endp |-> TRUE, log |-> FALSE, expl |-> FALSE, intsp |-> FALSE]
\* intsp: the range bounds are written as YAML integers (lo: 1, hi: 4) instead of floats (lo: 1.0, hi: 4.0): the same range
NoSweep == [on |-> FALSE, vname |-> "", vals |-> <<>>, ints |-> FALSE, ctx2 |-> FALSE, vorder |-> FALSE, mode |-> "", bc |-> FALSE, expr |-> <<>>, coll |-> "", el |-> "", rng |-> NoRng]
Spellings == 0..3

(******************************* meaning **********************************)
RECURSIVE ExprNorm(_), Flat(_), LexLess(_, _)
\* expression trees: <<"t">>, <<"c", n>>, <<op, a, b>>, <<"abs", x>> / <<"neg", x>> (a call / a unary minus around x);
\* + and * are commutative: the operands of every + / * node are put in a fixed total order (lexicographic order of the
\* pre-order serialisation of the already normalised operands)
IsWrap(e) == Len(e) = 2 /\ e[1] \in {"abs", "neg"}
Opc(op) == CASE op = "+" -> 10 [] op = "*" -> 11 [] op = "-" -> 12 [] op = "abs" -> 13 [] op = "neg" -> 14 [] OTHER -> 15
Flat(e) == IF e[1] = "t" THEN <<1>>
           ELSE IF e[1] = "c" THEN <<2, e[2]>>
           ELSE IF IsWrap(e) THEN <<Opc(e[1])>> \o Flat(e[2])
           ELSE <<Opc(e[1])>> \o Flat(e[2]) \o Flat(e[3])
LexLess(x, y) == IF x = <<>> THEN y # <<>>
                 ELSE IF y = <<>> THEN FALSE
                 ELSE IF Head(x) < Head(y) THEN TRUE
                 ELSE IF Head(x) > Head(y) THEN FALSE
                 ELSE LexLess(Tail(x), Tail(y))
ExprNorm(e) == IF IsWrap(e) THEN <<e[1], ExprNorm(e[2])>>
               ELSE IF Len(e) < 3 THEN e
               ELSE LET a == ExprNorm(e[2]) b == ExprNorm(e[3])
                    IN IF e[1] \in {"+", "*"} /\ LexLess(Flat(b), Flat(a)) THEN <<e[1], b, a>> ELSE <<e[1], a, b>>

\* (an entry's `al` field -- written as a YAML alias of entry al of the same node -- is not part of the meaning)
EntryMeaning(en) == [k |-> en.k, v |-> en.v, str |-> en.str, sub |-> {[k |-> s.k, v |-> s.v] : s \in {en.sub[i] : i \in 1..Len(en.sub)}}]
SweepMeaning(sw) == IF ~sw.on THEN sw ELSE [sw EXCEPT !.expr = ExprNorm(sw.expr), !.vorder = FALSE, !.rng.expl = FALSE, !.rng.intsp = FALSE]
\* (pempty -- how an empty parameters block is written -- is not part of the meaning)
NodeMeaning(n) == [proc |-> n.proc,
                   params |-> {EntryMeaning(n.ps[i]) : i \in 1..Len(n.ps)},
                   sweep |-> SweepMeaning(n.sweep)]
Meaning(c) == [i \in 1..Len(c) |-> NodeMeaning(c[i])]

(******************************* cosmetic actions *************************)
SwapAt(s, i) == [j \in 1..Len(s) |-> IF j = i THEN s[i + 1] ELSE IF j = i + 1 THEN s[i] ELSE s[j]]
\* a node written as a YAML alias (*nK) of an earlier, equal node K: alias = K (0 = written out).  Nodes taking
\* part in an alias pair are not rewritten further (the alias would silently follow its anchor).
Involved(i) == cfg[i].alias # 0 \/ (\E j \in 1..Len(cfg) : cfg[j].alias = i)
                  \/ (\E e \in 1..Len(cfg[i].ps) : cfg[i].ps[e].al # 0)     \* ... or holding an aliased parameter value
NoAliases == \A j \in 1..Len(cfg) : cfg[j].alias = 0
SetNode(i, n) == ~Involved(i) /\ cfg' = [cfg EXCEPT ![i] = n]

PermuteKeys == \E i \in 1..Len(cfg) : \E j \in 1..(Len(cfg[i].ps) - 1) :
                  SetNode(i, [cfg[i] EXCEPT !.ps = SwapAt(@, j)]) /\ last' = "PermuteKeys"
PermuteSubKeys == \E i \in 1..Len(cfg) : \E j \in 1..Len(cfg[i].ps) : \E m \in 1..(Len(cfg[i].ps[j].sub) - 1) :
                  SetNode(i, [cfg[i] EXCEPT !.ps[j].sub = SwapAt(@, m)]) /\ last' = "PermuteSubKeys"
Respell == \E i \in 1..Len(cfg) : \E j \in 1..Len(cfg[i].ps) : \E sp \in Spellings :
              /\ cfg[i].ps[j].sub = <<>> /\ sp # cfg[i].ps[j].sp
              /\ SetNode(i, [cfg[i] EXCEPT !.ps[j].sp = sp]) /\ last' = "Respell"
Requote == \E i \in 1..Len(cfg) : SetNode(i, [cfg[i] EXCEPT !.quoted = ~@]) /\ last' = "Requote"
Reflow == \E i \in 1..Len(cfg) : cfg[i].ps # <<>> /\ SetNode(i, [cfg[i] EXCEPT !.flow = ~@]) /\ last' = "Reflow"
CommuteExpr == \E i \in 1..Len(cfg) :
                  /\ cfg[i].sweep.on /\ Len(cfg[i].sweep.expr) = 3 /\ cfg[i].sweep.expr[1] \in {"+", "*"}
                  /\ cfg[i].sweep.expr[2] # cfg[i].sweep.expr[3]
                  /\ SetNode(i, [cfg[i] EXCEPT !.sweep.expr = <<@[1], @[3], @[2]>>]) /\ last' = "CommuteExpr"
\* the same one level down, under ANY root operator (also a non-commutative one)
CommuteInner == \E i \in 1..Len(cfg) : \E side \in {2, 3} :       \* in the left or in the right operand of the root
                  /\ cfg[i].sweep.on /\ Len(cfg[i].sweep.expr) = 3 /\ Len(cfg[i].sweep.expr[side]) = 3
                  /\ cfg[i].sweep.expr[side][1] \in {"+", "*"} /\ cfg[i].sweep.expr[side][2] # cfg[i].sweep.expr[side][3]
                  /\ SetNode(i, [cfg[i] EXCEPT !.sweep.expr[side] = <<@[1], @[3], @[2]>>]) /\ last' = "CommuteInner"
\* ... and below a call or a unary minus (any non-arithmetic construct around the chain)
CommuteUnder == \E i \in 1..Len(cfg) :
                  /\ cfg[i].sweep.on /\ IsWrap(cfg[i].sweep.expr) /\ Len(cfg[i].sweep.expr[2]) = 3
                  /\ cfg[i].sweep.expr[2][1] \in {"+", "*"} /\ cfg[i].sweep.expr[2][2] # cfg[i].sweep.expr[2][3]
                  /\ SetNode(i, [cfg[i] EXCEPT !.sweep.expr[2] = <<@[1], @[3], @[2]>>]) /\ last' = "CommuteUnder"
ExplicitDefault == \E i \in 1..Len(cfg) : cfg[i].sweep.on /\ cfg[i].sweep.rng.on
                  /\ SetNode(i, [cfg[i] EXCEPT !.sweep.rng.expl = ~@]) /\ last' = "ExplicitDefault"
PermuteVars == \E i \in 1..Len(cfg) : cfg[i].sweep.on /\ cfg[i].sweep.ctx2
                  /\ SetNode(i, [cfg[i] EXCEPT !.sweep.vorder = ~@]) /\ last' = "PermuteVars"
\* a node without parameters may leave the block out, write `parameters:` (YAML null) or `parameters: {}`
EmptyParams == \E i \in 1..Len(cfg) : \E e \in 0..2 :
                  /\ cfg[i].ps = <<>> /\ e # cfg[i].pempty
                  /\ SetNode(i, [cfg[i] EXCEPT !.pempty = e]) /\ last' = "EmptyParams"
Alias == \E i, j \in 1..Len(cfg) : /\ i < j /\ ~Involved(i) /\ ~Involved(j)
                                    /\ NodeMeaning(cfg[i]) = NodeMeaning(cfg[j])
                                    /\ cfg' = [cfg EXCEPT ![j].alias = i] /\ last' = "Alias"
\* a nested mapping value written as an alias (*nIeA) of an equal mapping value of the SAME node's parameters
SubSet(en) == {[k |-> x.k, v |-> x.v] : x \in {en.sub[m] : m \in 1..Len(en.sub)}}
AliasSub == \E i \in 1..Len(cfg) : \E a, b \in 1..Len(cfg[i].ps) :
               /\ a < b /\ ~Involved(i) /\ cfg[i].ps[a].sub # <<>> /\ cfg[i].ps[b].sub # <<>>
               /\ SubSet(cfg[i].ps[a]) = SubSet(cfg[i].ps[b])
               /\ cfg' = [cfg EXCEPT ![i].ps[b].al = a] /\ last' = "AliasSub"
RangeBoundSpelling == \E i \in 1..Len(cfg) : cfg[i].sweep.on /\ cfg[i].sweep.rng.on
                  /\ SetNode(i, [cfg[i] EXCEPT !.sweep.rng.intsp = ~@]) /\ last' = "RangeBoundSpelling"
Cosmetic == RangeBoundSpelling \/ PermuteKeys \/ PermuteSubKeys \/ Respell \/ Requote \/ Reflow \/ CommuteExpr \/ CommuteInner \/ CommuteUnder \/ PermuteVars \/ Alias \/ AliasSub \/ EmptyParams \/ ExplicitDefault

(******************************* semantic actions *************************)
OtherProc(p) == IF p = "FloatMultiplyOperation" THEN "VNestedOperation" ELSE "FloatMultiplyOperation"
SetProcessor == \E i \in 1..Len(cfg) : ~cfg[i].sweep.on
                   /\ SetNode(i, [cfg[i] EXCEPT !.proc = OtherProc(@)]) /\ last' = "SetProcessor"
SetParam == \E i \in 1..Len(cfg) : \E j \in 1..Len(cfg[i].ps) :
               /\ cfg[i].ps[j].sub = <<>>
               /\ SetNode(i, [cfg[i] EXCEPT !.ps[j].v = @ + 1]) /\ last' = "SetParam"
SetSubParam == \E i \in 1..Len(cfg) : \E j \in 1..Len(cfg[i].ps) : \E m \in 1..Len(cfg[i].ps[j].sub) :
               SetNode(i, [cfg[i] EXCEPT !.ps[j].sub[m].v = @ + 1]) /\ last' = "SetSubParam"
DropNode == /\ Len(cfg) > 1 /\ NoAliases
            /\ \E i \in 1..Len(cfg) : cfg' = [j \in 1..(Len(cfg) - 1) |-> IF j < i THEN cfg[j] ELSE cfg[j + 1]]
            /\ last' = "DropNode"
DupNode == \E i \in 1..Len(cfg) : ~cfg[i].sweep.on /\ NoAliases
              /\ cfg' = [j \in 1..(Len(cfg) + 1) |-> IF j <= i THEN cfg[j] ELSE cfg[j - 1]] /\ last' = "DupNode"
SwapNodes == \E i \in 1..(Len(cfg) - 1) : NoAliases /\ NodeMeaning(cfg[i]) # NodeMeaning(cfg[i + 1])
                /\ cfg' = SwapAt(cfg, i) /\ last' = "SwapNodes"
SweepField(f) == \E i \in 1..Len(cfg) : cfg[i].sweep.on /\
    CASE f = "vals"  -> SetNode(i, [cfg[i] EXCEPT !.sweep.vals = Append(@, 9)])
      [] f = "val1"  -> SetNode(i, [cfg[i] EXCEPT !.sweep.vals[1] = @ + 1])
      [] f = "valmid" -> /\ Len(cfg[i].sweep.vals) >= 7      \* an interior value of a long sequence (beyond any head/tail sample)
                         /\ SetNode(i, [cfg[i] EXCEPT !.sweep.vals[(Len(cfg[i].sweep.vals) + 1) \div 2] = @ + 1])
      [] f = "mode"  -> SetNode(i, [cfg[i] EXCEPT !.sweep.mode = IF @ = "combinatorial" THEN "by_position" ELSE "combinatorial"])
      [] f = "bc"    -> SetNode(i, [cfg[i] EXCEPT !.sweep.bc = ~@])
      [] f = "const" -> SetNode(i, [cfg[i] EXCEPT !.sweep.expr = <<"+", @, <<"c", 1>>>>])
      [] f = "noncomm" -> /\ Len(cfg[i].sweep.expr) = 3 /\ cfg[i].sweep.expr[1] = "-" /\ cfg[i].sweep.expr[2] # cfg[i].sweep.expr[3]
                          /\ SetNode(i, [cfg[i] EXCEPT !.sweep.expr = <<"-", @[3], @[2]>>])
      [] f = "inttype" -> SetNode(i, [cfg[i] EXCEPT !.sweep.ints = ~@])     \* 1 vs 1.0: another YAML type
      [] f = "oproot" -> /\ Len(cfg[i].sweep.expr) = 3 /\ cfg[i].sweep.expr[1] \in {"+", "*"}
                         /\ SetNode(i, [cfg[i] EXCEPT !.sweep.expr[1] = IF @ = "+" THEN "*" ELSE "+"])
      [] f = "opinner" -> /\ Len(cfg[i].sweep.expr) = 3 /\ Len(cfg[i].sweep.expr[2]) = 3 /\ cfg[i].sweep.expr[2][1] \in {"+", "*"}
                          /\ SetNode(i, [cfg[i] EXCEPT !.sweep.expr[2][1] = IF @ = "+" THEN "*" ELSE "+"])
      [] f = "vname" -> SetNode(i, [cfg[i] EXCEPT !.sweep.vname = IF @ = "t" THEN "expr" ELSE "t"])
      [] f = "rhi"   -> cfg[i].sweep.rng.on /\ SetNode(i, [cfg[i] EXCEPT !.sweep.rng.hi = @ + 1])      \* the LAST digit of a 7-digit end point
      [] f = "rlo"   -> cfg[i].sweep.rng.on /\ SetNode(i, [cfg[i] EXCEPT !.sweep.rng.lo = @ + 1])
      [] f = "rsteps" -> cfg[i].sweep.rng.on /\ SetNode(i, [cfg[i] EXCEPT !.sweep.rng.steps = @ + 1])
      [] f = "rendp" -> cfg[i].sweep.rng.on /\ SetNode(i, [cfg[i] EXCEPT !.sweep.rng.endp = ~@])
      [] f = "rlog"  -> cfg[i].sweep.rng.on /\ SetNode(i, [cfg[i] EXCEPT !.sweep.rng.log = ~@])
      [] f = "el"    -> LET e2 == IF cfg[i].proc = "FloatValueDataSource" THEN "FloatValueDataSourceWithDefault" ELSE "FloatValueDataSource"
                        IN SetNode(i, [cfg[i] EXCEPT !.sweep.el = e2, !.proc = e2])     \* the wrapped processor
SweepName(f) == CASE f = "vals" -> "SetSweep_vals" [] f = "val1" -> "SetSweep_val1" [] f = "mode" -> "SetSweep_mode"
                   [] f = "bc" -> "SetSweep_bc" [] f = "const" -> "SetSweep_const" [] f = "noncomm" -> "SetSweep_noncomm"
                   [] f = "el" -> "SetSweep_el" [] f = "oproot" -> "SetSweep_oproot" [] f = "inttype" -> "SetSweep_inttype" [] f = "opinner" -> "SetSweep_opinner" [] f = "vname" -> "SetSweep_vname" [] f = "valmid" -> "SetSweep_valmid"
                   [] f = "rhi" -> "SetSweep_rhi" [] f = "rlo" -> "SetSweep_rlo" [] f = "rsteps" -> "SetSweep_rsteps" [] f = "rendp" -> "SetSweep_rendp" [] f = "rlog" -> "SetSweep_rlog"
SetSweep == \E f \in {"vals", "val1", "mode", "bc", "const", "noncomm", "el", "oproot", "opinner", "inttype", "vname", "valmid", "rhi", "rlo", "rsteps", "rendp", "rlog"} : SweepField(f) /\ last' = SweepName(f)
Semantic == SetProcessor \/ SetParam \/ SetSubParam \/ DropNode \/ DupNode \/ SwapNodes \/ SetSweep

Init == cfg \in Seeds /\ last = "" /\ steps = 0 /\ base = cfg
Next == /\ steps < MaxSteps /\ steps' = steps + 1 /\ base' = cfg
        /\ (Cosmetic \/ Semantic)
Spec == Init /\ [][Next]_vars

CosmeticNames == {"RangeBoundSpelling", "PermuteKeys", "PermuteSubKeys", "Respell", "Requote", "Reflow", "CommuteExpr", "CommuteInner", "CommuteUnder", "PermuteVars", "Alias", "AliasSub", "EmptyParams", "ExplicitDefault"}
CosmeticKeepsMeaning == (last \in CosmeticNames) => Meaning(cfg) = Meaning(base)
SemanticChangesMeaning == (last # "" /\ last \notin CosmeticNames) => Meaning(cfg) # Meaning(base)

Edge == [from |-> base, to |-> cfg, action |-> last, cosmetic |-> last \in CosmeticNames]
EmitInv == (last # "") => PrintT(ToJson(Edge))
=============================================================================
