------------------------------ MODULE MC_Sweep ------------------------------
EXTENDS Sweep
Seq_(v) == [t |-> "seq", vals |-> v, lo |-> 0, hi |-> 0, steps |-> 0, endp |-> FALSE, key |-> ""]
Lin(lo, hi, n, e) == [t |-> "lin", vals |-> <<>>, lo |-> lo, hi |-> hi, steps |-> n, endp |-> e, key |-> ""]
Log_(lo, hi, n, e) == [t |-> "log", vals |-> <<>>, lo |-> lo, hi |-> hi, steps |-> n, endp |-> e, key |-> ""]
Ctx(kk) == [t |-> "ctx", vals |-> <<>>, lo |-> 0, hi |-> 0, steps |-> 0, endp |-> FALSE, key |-> kk]
CtxList23 == <<2, 3>>
CtxNone == <<>>
Domains == {Seq_(<<1, 2>>), Seq_(<<3>>), Seq_(<<4, 5, 6>>), Lin(0, 6, 3, TRUE), Lin(0, 6, 3, FALSE),
            Log_(1, 10000, 2, TRUE), Log_(1, 10000, 2, FALSE), Ctx("s"),
            Lin(6, 0, 3, TRUE), Log_(10000, 1, 2, FALSE)}       \* descending ranges (lo > hi) run from lo DOWN to hi
Kinds == {"src", "op", "probe"}
OneVar == {[kind |-> kd, vars |-> [n \in {"t"} |-> d], mode |-> m, bc |-> b, expr |-> e, bplace |-> bp] :
             kd \in Kinds, d \in Domains, m \in {"comb", "bp"}, b \in BOOLEAN, e \in {"t", "2*t"}, bp \in {"config", "context", "default"}}
TwoVars == {[kind |-> kd, vars |-> [n \in {"t", "u"} |-> IF n = "t" THEN d1 ELSE d2], mode |-> m, bc |-> b, expr |-> e, bplace |-> bp] :
             kd \in Kinds, d1 \in Domains, d2 \in Domains, m \in {"comb", "bp"}, b \in BOOLEAN,
             e \in {"t+u", "t*u", "u-t"}, bp \in {"config", "default"}}
\* string-valued expressions over two variables: operand order of + matters
CatDomains == {Seq_(<<1, 2>>), Seq_(<<3>>), Seq_(<<4, 5, 6>>), Lin(0, 6, 3, FALSE), Ctx("s")}
CatSpecs == {[kind |-> kd, vars |-> [n \in {"t", "u"} |-> IF n = "t" THEN d1 ELSE d2], mode |-> m, bc |-> b, expr |-> e, bplace |-> "default"] :
             kd \in Kinds, d1 \in CatDomains, d2 \in CatDomains, m \in {"comb", "bp"}, b \in BOOLEAN, e \in {"cat", "tac"}}
AllSpecs == OneVar \cup TwoVars \cup CatSpecs
SmallDomains == {Seq_(<<1, 2>>), Seq_(<<3>>), Lin(0, 6, 3, FALSE), Ctx("s")}
ThreeVars == {[kind |-> kd, vars |-> [n \in {"t", "u", "v"} |-> IF n = "t" THEN d1 ELSE IF n = "u" THEN d2 ELSE d3],
               mode |-> m, bc |-> b, expr |-> e, bplace |-> bp] :
             kd \in Kinds, d1 \in SmallDomains, d2 \in SmallDomains, d3 \in SmallDomains, m \in {"comb", "bp"}, b \in BOOLEAN,
             e \in {"t+u+v", "t*u-v"}, bp \in {"context", "default"}}
=============================================================================
