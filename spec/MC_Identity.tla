---------------------------- MODULE MC_Identity ----------------------------
EXTENDS Identity
E(k, v) == [k |-> k, v |-> v, sp |-> 0, sub |-> <<>>, al |-> 0, str |-> FALSE]
ES(k, v) == [k |-> k, v |-> v, sp |-> 0, sub |-> <<>>, al |-> 0, str |-> TRUE]      \* a STRING value "k<v>" (e.g. a context key)
S(k, v) == [k |-> k, v |-> v, sp |-> 0]
EN(k, sub) == [k |-> k, v |-> 0, sp |-> 0, sub |-> sub, al |-> 0, str |-> FALSE]
Nd(p, ps) == [proc |-> p, ps |-> ps, flow |-> FALSE, quoted |-> FALSE, alias |-> 0, pempty |-> 0, sweep |-> NoSweep]
Sw(el, vals, mode, bc, expr) ==
    [proc |-> el, ps |-> <<>>, flow |-> FALSE, quoted |-> FALSE, alias |-> 0, pempty |-> 0,
     sweep |-> [on |-> TRUE, vname |-> "t", vals |-> vals, ints |-> FALSE, ctx2 |-> FALSE, vorder |-> FALSE, mode |-> mode, bc |-> bc, expr |-> expr, coll |-> "FloatDataCollection", el |-> el, rng |-> NoRng]]
Rng(lo, hi, n, endp, log) == [on |-> TRUE, lo |-> lo, hi |-> hi, steps |-> n, endp |-> endp, log |-> log, expl |-> FALSE, intsp |-> FALSE]
Seed1 == << Nd("FloatValueDataSource", <<E("value", 1)>>),
            Nd("FloatMultiplyOperation", <<E("factor", 3)>>),
            Nd("VNestedOperation", <<E("gain", 2), EN("opts", <<S("alpha", 1), S("beta", 2)>>)>>) >>
Seed2 == << Sw("FloatValueDataSource", <<1, 2>>, "combinatorial", FALSE, <<"+", <<"*", <<"t">>, <<"c", 2>>>>, <<"c", 1>>>>),
            Nd("VNestedOperation", <<EN("opts", <<S("beta", 2), S("alpha", 1)>>), E("gain", 5)>>) >>
Seed3 == << Nd("FloatValueDataSource", <<E("value", 1)>>),
            Nd("FloatMultiplyOperation", <<E("factor", 3)>>), Nd("FloatMultiplyOperation", <<E("factor", 3)>>) >>
Seed4 == << Sw("FloatValueDataSource", <<2, 3, 4>>, "by_position", TRUE, <<"-", <<"+", <<"t">>, <<"c", 3>>>>, <<"c", 1>>>>) >>
Seed5 == << [Sw("FloatValueDataSource", <<1, 2>>, "combinatorial", FALSE, <<"*", <<"t">>, <<"c", 2>>>>) EXCEPT !.sweep.ctx2 = TRUE] >>
Seed6 == << [Sw("FloatValueDataSource", <<2, 3>>, "combinatorial", FALSE, <<"+", <<"t">>, <<"c", 1>>>>) EXCEPT !.sweep.vname = "expr"] >>
\* two equal sweep nodes around a reduction: candidates for a YAML anchor/alias pair
SwM == Sw("FloatMultiplyOperation", <<2, 3>>, "combinatorial", FALSE, <<"t">>)
Seed7 == << Nd("FloatValueDataSource", <<E("value", 1)>>), SwM, Nd("FloatCollectionSumOperation", <<>>), SwM >>
\* two equal nested mappings in one node's parameters: candidates for a value-level anchor/alias pair
Seed8 == << Nd("FloatValueDataSource", <<E("value", 1)>>),
            Nd("VNestedOperation", <<E("gain", 2), EN("opts", <<S("alpha", 1), S("beta", 2)>>), EN("opts2", <<S("beta", 2), S("alpha", 1)>>)>>) >>
Seed9 == << Sw("FloatValueDataSource", <<1, 2, 3, 4, 5, 6, 7, 8, 9>>, "combinatorial", FALSE, <<"t">>) >>     \* a long explicit sequence
\* a context processor whose output key is bound through a string-valued parameter (context_key)
Seed10 == << Nd("FloatValueDataSource", <<E("value", 1)>>), Nd("VCtxBump", <<ES("context_key", 1), E("a", 2)>>) >>
\* commutative chains under a call and under a unary minus
Seed11 == << Sw("FloatValueDataSource", <<1, 2>>, "combinatorial", FALSE, <<"abs", <<"+", <<"t">>, <<"c", 3>>>>>>),
             Sw("FloatValueDataSourceWithDefault", <<1, 2>>, "combinatorial", FALSE, <<"neg", <<"*", <<"t">>, <<"c", 2>>>>>>) >>
\* a commutative root whose BOTH operands are chains: (t + 1) * (2 + t), and 2*t + t*3
Seed12 == << Sw("FloatValueDataSource", <<1, 2>>, "combinatorial", FALSE, <<"*", <<"+", <<"t">>, <<"c", 1>>>>, <<"+", <<"c", 2>>, <<"t">>>>>>),
             Sw("FloatValueDataSourceWithDefault", <<1, 2>>, "combinatorial", FALSE, <<"+", <<"*", <<"c", 2>>, <<"t">>>>, <<"*", <<"t">>, <<"c", 3>>>>>>) >>
\* context processors GENERATED from a string specification (template / rename / delete): their class exists only
\* after the node factory ran, and its name is derived from the specification text
Seed13 == << Nd("FloatValueDataSource", <<E("value", 1)>>), Nd("template:\"x{value}_{factor}\":label", <<>>),
             Nd("rename:label:tag.sub", <<>>), Nd("delete:tag.sub", <<>>), Nd("FloatMultiplyOperation", <<>>) >>
\* a second variable given as a range: 7-digit end point, both scales, end point excluded / included
Seed14 == << [Sw("FloatValueDataSource", <<1, 2>>, "combinatorial", FALSE, <<"t">>) EXCEPT !.sweep.rng = Rng(1, 1234567, 2, TRUE, FALSE)],
             [Sw("FloatValueDataSourceWithDefault", <<1, 2>>, "combinatorial", FALSE, <<"t">>) EXCEPT !.sweep.rng = Rng(2, 16777216, 2, FALSE, TRUE)] >>
\* explicit value lists holding NON-FINITE numbers (the tokens 99991 / 99993 are written .inf / -.inf)
Seed15 == << Sw("FloatValueDataSource", <<1, 99991, 3>>, "combinatorial", FALSE, <<"t">>),
             Sw("FloatValueDataSourceWithDefault", <<99993, 2>>, "by_position", TRUE, <<"+", <<"t">>, <<"c", 1>>>>) >>
\* a same-operator group written as the RIGHT operand: 1 + (t + 2), 2 * (t * 3)
Seed16 == << Sw("FloatValueDataSource", <<1, 2>>, "combinatorial", FALSE, <<"+", <<"c", 1>>, <<"+", <<"t">>, <<"c", 2>>>>>>),
             Sw("FloatValueDataSourceWithDefault", <<1, 2>>, "combinatorial", FALSE, <<"*", <<"c", 2>>, <<"*", <<"t">>, <<"c", 3>>>>>>) >>
\* by_position over one literal sequence and from_context variables (the broadcast flag decides between cycling and rejection)
Seed17 == << [Sw("FloatValueDataSource", <<1, 2>>, "by_position", FALSE, <<"*", <<"t">>, <<"c", 2>>>>) EXCEPT !.sweep.ctx2 = TRUE] >>
\* a long explicit sequence with a value that is not a JSON type (token 88805 = the YAML date 2024-02-05) in the MIDDLE
Seed18 == << Sw("FloatValueDataSource", <<1, 2, 3, 4, 88805, 6, 7, 8, 9>>, "combinatorial", FALSE, <<"c", 1>>) >>
AllSeeds == {Seed18, Seed17, Seed16, Seed15, Seed14, Seed1, Seed2, Seed3, Seed4, Seed5, Seed6, Seed7, Seed8, Seed9, Seed10, Seed11, Seed12, Seed13}
=============================================================================
