--------------------------- MODULE JobQueueTrace ---------------------------
(***************************************************************************)
(* Batch validation of histories recorded from the real master/worker      *)
(* threads.  Events, logged at the linearization points (harness call for  *)
(* enqueue, deque.append / popleft of the transport for messages, Future   *)
(* done-callback for completion):                                          *)
(*  {e:"enq",j} {e:"cfg",j} {e:"take",j,w} {e:"status",j,w,kind}           *)
(*  {e:"resolve",j,kind}                                                   *)
(* A trace = [njobs, outcome (array), events].                             *)
(***************************************************************************)
EXTENDS JobQueue, Json, IOUtils, TLCExt

Traces == JsonDeserialize(IOEnv.TRACE_FILE)
TraceJobs == 1..40
TraceWorkers == 1..4
VARIABLES tid, ix
trvars == <<vars, tid, ix>>
Tr == Traces[tid]
Ev == Tr.events[ix]

TrInit == /\ tid \in 1..Len(Traces) /\ ix = 1
          /\ jobq = <<>> /\ enqueued = {} /\ cfgChan = <<>> /\ statusChan = <<>>
          /\ busy = [w \in Workers |-> 0] /\ alive = [w \in Workers |-> "on"]
          /\ future = [j \in Jobs |-> <<"none", 0>>] /\ sets = [j \in Jobs |-> 0]
          /\ outcome = [j \in Jobs |-> IF j <= Len(Traces[tid].outcome) THEN Traces[tid].outcome[j] ELSE "ok"]
Consume == ix <= Len(Tr.events) /\ ix' = ix + 1 /\ UNCHANGED tid
Last(s) == s[Len(s)]

TrEnq     == Consume /\ Ev.e = "enq" /\ Enqueue(Ev.j)
TrCfg     == Consume /\ Ev.e = "cfg" /\ MasterPublish /\ Last(cfgChan') = Ev.j
TrTake    == Consume /\ Ev.e = "take" /\ WorkerTake(Ev.w) /\ busy'[Ev.w] = Ev.j
TrStatus  == /\ Consume /\ Ev.e = "status" /\ busy[Ev.w] = Ev.j
             /\ \/ Ev.kind = "result" /\ WorkerRunOk(Ev.w)
                \/ Ev.kind = "error" /\ WorkerRunFail(Ev.w) /\ Len(statusChan') = Len(statusChan) + 1
TrResolve == /\ Consume /\ Ev.e = "resolve" /\ MasterResolve
             /\ future'[Ev.j] = <<Ev.kind, Ev.j>> /\ sets'[Ev.j] = sets[Ev.j] + 1
\* a status message of a job whose Future is no longer pending is consumed silently by the master
TrNext == TrEnq \/ TrCfg \/ TrTake \/ TrStatus \/ TrResolve
TrSpec == TrInit /\ [][TrNext]_trvars

\* at the end of an accepted history every enqueued job's Future is done
AllDone == \A j \in Jobs : j \in enqueued => Done(j)
Mark == (ix = Len(Tr.events) + 1 /\ AllDone) => TLCSet(1, TLCGet(1) \cup {tid})
Hi == TLCSet(2, IF ix > TLCGet(2) THEN ix ELSE TLCGet(2))
Post == /\ PrintT(<<"ACCEPTED", Cardinality(TLCGet(1)), Len(Traces)>>)
        /\ LET rej == (1..Len(Traces)) \ TLCGet(1) IN IF rej = {} THEN TRUE ELSE PrintT(<<"REJECTED", rej>>)
PostDiag == PrintT(<<"MATCHED", TLCGet(2) - 1>>)
ASSUME TLCSet(1, {}) /\ TLCSet(2, 0)
=============================================================================
