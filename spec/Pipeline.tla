------------------------------ MODULE Pipeline ------------------------------
(***************************************************************************)
(* Sequential execution of a node list: Pipeline._process ->               *)
(* SemantivaOrchestrator.execute -> _DataNode._process /                   *)
(* _ContextProcessorNode._process, one action per critical section:        *)
(*   Build      _instantiate_nodes (all nodes are constructed before any   *)
(*              processor runs; an unknown parameter or a probe without a  *)
(*              context key fails here and no node ever starts)            *)
(*   Step       one node: type gate, parameter resolution, processor       *)
(*              (named sub-outcomes FailType, FailResolve, FailProc,       *)
(*               FailUndeclared, OkNode)                                   *)
(* The run phase is deterministic; all nondeterminism is in Init/Choose    *)
(* (choice of program, initial context, initial data).                     *)
(***************************************************************************)
EXTENDS Library, Json

CONSTANTS NodeSet,      \* set of node records programs are built from
          MaxLen,       \* maximal program length
          InitCtxs,     \* set of initial contexts  [Keys -> value]
          InitDatas,    \* set of initial data values
          MaxMag        \* magnitude bound keeping float(n) exact / ints in range

VARIABLES prog, ictx, idata, pc, data, ctx, status, failClass, steps
vars == <<prog, ictx, idata, pc, data, ctx, status, failClass, steps>>

Init == /\ prog = <<>>
        /\ ictx \in InitCtxs
        /\ idata \in InitDatas
        /\ pc = 0 /\ data = idata /\ ctx = ictx
        /\ status = "init" /\ failClass = "" /\ steps = <<>>

Fail(cls) == /\ status' = "fail" /\ failClass' = cls
             /\ UNCHANGED <<prog, ictx, idata, pc, data, ctx, steps>>

\* the program is chosen node by node (so that simulation can sample long programs)
Choose == /\ status = "init" /\ Len(prog) < MaxLen
          /\ \E n \in NodeSet : prog' = Append(prog, n)
          /\ UNCHANGED <<ictx, idata, pc, data, ctx, status, failClass, steps>>

Build == /\ status = "init" /\ Len(prog) >= 1
         /\ IF \E i \in 1..Len(prog) : ~Constructible(prog[i])
            THEN Fail("build")
            ELSE /\ status' = "run" /\ pc' = 1
                 /\ UNCHANGED <<prog, ictx, idata, data, ctx, failClass, steps>>

\* outcome of running node n on (d, c): [st, data, ctx] with st in
\* {"ok","type","resolve","proc","undeclared"}
NodeOutcome(n, d, c) ==
    IF InT(n) # "any" /\ d.ty # InT(n) THEN Bad("type", d, c)
    ELSE IF Unresolvable(n, c) # {} THEN Bad("resolve", d, c)
    ELSE Apply(n, d, c, Args(n, c))

Step == /\ status = "run"
        /\ LET r == NodeOutcome(prog[pc], data, ctx)
           IN IF r.st = "ok"
              THEN /\ data' = r.data /\ ctx' = r.ctx
                   /\ steps' = Append(steps, [data |-> r.data, ctx |-> r.ctx])
                   /\ IF pc = Len(prog)
                      THEN status' = "done" /\ pc' = pc
                      ELSE status' = "run" /\ pc' = pc + 1
                   /\ UNCHANGED <<prog, ictx, idata, failClass>>
              ELSE Fail(r.st)

Next == Choose \/ Build \/ Step
Spec == Init /\ [][Next]_vars

Terminal == status \in {"done", "fail"}

(***************************** properties *********************************)
TypeOK == /\ status \in {"init", "run", "done", "fail"}
          /\ pc \in 0..MaxLen
          /\ failClass \in {"", "build", "type", "resolve", "proc", "undeclared", "abort"}
          /\ (status = "fail") <=> (failClass # "")

\* steps records exactly the nodes that completed
StepsCount == /\ status = "run"  => Len(steps) = pc - 1
              /\ status = "done" => Len(steps) = Len(prog)
              /\ status = "fail" /\ failClass # "build" => Len(steps) = pc - 1
              /\ failClass = "build" => steps = <<>> /\ pc = 0

\* the data type after node i is the declared output type (or passed through)
TypeFlow == status = "run" /\ pc > 1 =>
               LET n == prog[pc - 1] IN OutT(n) # "same" => data.ty = OutT(n)

FailStop == [][(status \in {"done", "fail"}) => (UNCHANGED vars)]_vars

ProbePassThrough == [][status = "run" /\ prog[pc].kind \in PassKinds => data' = data]_vars

DeclaredKeysOnly ==
    [][status = "run" =>
         \A k \in Keys : ctx'[k] # ctx[k] => k \in Created(prog[pc]) \cup Suppressed(prog[pc])]_vars

\* precedence, stated independently of ArgVal: whatever value the processor used for a
\* number-valued parameter is visible in the result of the pure arithmetic kinds
PrecedenceMul ==
    [][status = "run" /\ prog[pc].kind \in {"Mul", "MulDef"} /\ status' # "fail" =>
         LET n == prog[pc] IN
         data'.v = data.v * (IF "factor" \in DOMAIN n.cfg THEN n.cfg["factor"]
                             ELSE IF ctx["factor"] # Absent THEN ctx["factor"].v ELSE 2)]_vars

InBound == DataMag(data) <= MaxMag
           /\ \A k \in Keys : (ctx[k].t \in {"n", "s"} => Abs(ctx[k].v) <= MaxMag)
                              /\ SeqMax(ctx[k].items) <= MaxMag

(****************************** emission **********************************)
Case == [prog |-> prog, ictx |-> ictx, idata |-> idata, status |-> status,
         failClass |-> failClass, failAt |-> pc, steps |-> steps, data |-> data, ctx |-> ctx]

EmitInv == (Terminal /\ InBound) => PrintT(ToJson(Case))
=============================================================================
