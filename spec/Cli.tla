-------------------------------- MODULE Cli --------------------------------
(***************************************************************************)
(* `semantiva run`: the pre-flight gates of cli._run in code order, then   *)
(* the run loop of a (possibly run-space) launch.  One action per gate.    *)
(*                                                                         *)
(* A scenario (chosen in Init) says which defect, if any, the invocation   *)
(* has and which flags are given:                                          *)
(*   defect \in Defects    "none" or exactly one documented problem        *)
(*   validate, dryRun, rsDryRun   flags                                    *)
(*   runSpace  \in {"none","ok"}  is a run_space block present             *)
(*   planned   number of planned runs (1 without run space)                *)
(*   failAt    0 or the 1-based index of the run that fails                *)
(*   failKind  "error" (exception in a node, exit 4) or "interrupt"        *)
(*             (KeyboardInterrupt, exit 5)                                 *)
(*   traced    is a trace driver configured                                *)
(*   rsFile    the run_space block comes from --run-space-file instead of  *)
(*             the pipeline file (same plan, same gates: the file replaces *)
(*             the inline block BEFORE the --run-space-* flags are merged) *)
(* Exit codes (docs/source/cli.rst, EXIT_* constants):                     *)
(*   1 usage, 2 missing file, 3 configuration, 4 runtime, 5 interrupt, 0 ok *)
(***************************************************************************)
EXTENDS Integers, Sequences, FiniteSets, TLC, Json

CONSTANTS MaxRuns

Defects == {"none", "usage", "file_missing", "yaml_invalid", "structure_invalid", "override_unknown",
            "runspace_block_invalid", "validation_fails", "context_arg_malformed",
            "runspace_expansion_invalid", "runspace_over_cap", "required_key_missing", "bad_attempt",
            "runspace_source_missing"}

GateOrder == <<"args", "load", "override", "parse", "inspect", "context", "validate_flag", "components",
               "expand", "preflight", "rs_dry_run", "dry_run", "launch", "runs", "exit">>
GateOf(d) == CASE d = "usage" -> "args"
               [] d \in {"file_missing", "yaml_invalid"} -> "load"
               [] d = "override_unknown" -> "override"
               [] d \in {"structure_invalid", "runspace_block_invalid"} -> "parse"
               [] d = "validation_fails" -> "inspect"
               [] d = "context_arg_malformed" -> "context"
               [] d \in {"runspace_expansion_invalid", "runspace_over_cap", "runspace_source_missing"} -> "expand"
               [] d = "required_key_missing" -> "preflight"
               [] d = "bad_attempt" -> "launch"
               [] OTHER -> "exit"
CodeOf(d) == CASE d = "usage" -> 1 [] d = "file_missing" -> 2 [] OTHER -> 3
NeedsRunSpace(d) == d \in {"runspace_block_invalid", "runspace_expansion_invalid", "runspace_over_cap",
                           "bad_attempt", "runspace_source_missing"}

VARIABLES sc,          \* the scenario
          gi,          \* index into GateOrder of the next gate
          exit,        \* -1 while running
          started,     \* number of runs whose pipeline was started
          completed,   \* number of runs that completed
          launchOpen,  \* run_space_start emitted, run_space_end not yet
          records      \* launch-level trace records: LS, <<"run", i, "ok"|"error">>, LE
vars == <<sc, gi, exit, started, completed, launchOpen, records>>
LS == <<"ls", 0, "">>
LE == <<"le", 0, "">>

Scenarios ==
    {s \in [defect : Defects, validate : BOOLEAN, dryRun : BOOLEAN, rsDryRun : BOOLEAN,
            runSpace : {"none", "ok"}, planned : 1..MaxRuns, failAt : 0..MaxRuns, failKind : {"error", "interrupt"}, traced : BOOLEAN,
            rsFile : BOOLEAN] :
        /\ (s.rsFile => s.runSpace = "ok")
        /\ (NeedsRunSpace(s.defect) => s.runSpace = "ok")
        /\ (s.runSpace = "none" => s.planned = 1)       \* a run-space dry run without a run_space block plans the one default run
        /\ s.failAt <= s.planned
        /\ (s.defect # "none" => s.failAt = 0)
        /\ (s.failAt = 0 => s.failKind = "error")}

Init == sc \in Scenarios /\ gi = 1 /\ exit = -1 /\ started = 0 /\ completed = 0
        /\ launchOpen = FALSE /\ records = <<>>

Gate == GateOrder[gi]
Stop(code) == exit' = code /\ gi' = Len(GateOrder) /\ UNCHANGED <<sc, started, completed, launchOpen, records>>
Pass == gi' = gi + 1 /\ UNCHANGED <<sc, exit, started, completed, launchOpen, records>>

\* a gate that only checks for "its" defect
CheckGate == /\ exit = -1
             /\ Gate \in {"args", "load", "override", "parse", "inspect", "context", "components", "expand", "preflight"}
             /\ IF GateOf(sc.defect) = Gate THEN Stop(CodeOf(sc.defect)) ELSE Pass
\* --validate returns right after inspection/validation, before the run space is expanded
\* (named behaviour of the code: ValidateSkipsRunSpaceExpansion)
ValidateFlag == /\ exit = -1 /\ Gate = "validate_flag"
                /\ IF sc.validate THEN Stop(0) ELSE Pass
RsDryRun == /\ exit = -1 /\ Gate = "rs_dry_run" /\ IF sc.rsDryRun THEN Stop(0) ELSE Pass
DryRun   == /\ exit = -1 /\ Gate = "dry_run" /\ IF sc.dryRun THEN Stop(0) ELSE Pass
LaunchStart == /\ exit = -1 /\ Gate = "launch"
               /\ IF sc.defect = "bad_attempt" THEN Stop(3)
                  ELSE /\ gi' = gi + 1
                       /\ launchOpen' = (sc.runSpace = "ok" /\ sc.traced)
                       /\ records' = IF sc.runSpace = "ok" /\ sc.traced THEN <<LS>> ELSE <<>>
                       /\ UNCHANGED <<sc, exit, started, completed>>
RunOk == /\ exit = -1 /\ Gate = "runs" /\ started < sc.planned /\ started + 1 # sc.failAt
         /\ started' = started + 1 /\ completed' = completed + 1
         /\ records' = IF sc.traced THEN Append(records, <<"run", started + 1, "ok">>) ELSE records
         /\ UNCHANGED <<sc, gi, exit, launchOpen>>
RunFails == /\ exit = -1 /\ Gate = "runs" /\ started < sc.planned /\ started + 1 = sc.failAt
            /\ started' = started + 1 /\ exit' = (IF sc.failKind = "interrupt" THEN 5 ELSE 4)
            /\ records' = IF sc.traced THEN Append(records, <<"run", started + 1, "error">>) ELSE records
            /\ UNCHANGED <<sc, gi, completed, launchOpen>>
RunsDone == /\ exit = -1 /\ Gate = "runs" /\ started = sc.planned
            /\ exit' = 0 /\ UNCHANGED <<sc, gi, started, completed, launchOpen, records>>
\* finally: run_space_end with truthful counts, on success and on failure
LaunchEnd == /\ Gate = "runs" /\ exit # -1 /\ launchOpen
             /\ launchOpen' = FALSE /\ records' = Append(records, LE)
             /\ UNCHANGED <<sc, gi, exit, started, completed>>
Finish == /\ Gate = "runs" /\ exit # -1 /\ ~launchOpen
          /\ gi' = gi + 1 /\ UNCHANGED <<sc, exit, started, completed, launchOpen, records>>

Next == CheckGate \/ ValidateFlag \/ RsDryRun \/ DryRun \/ LaunchStart \/ RunOk \/ RunFails \/ RunsDone \/ LaunchEnd \/ Finish
Spec == Init /\ [][Next]_vars

Terminal == Gate = "exit" /\ exit # -1

(***************************** properties (C17) ***************************)
Passed(g) == \E i \in 1..(gi - 1) : GateOrder[i] = g
NoExecBeforeGates == started > 0 =>
    /\ sc.defect = "none" /\ ~sc.validate /\ ~sc.dryRun /\ ~sc.rsDryRun
    /\ \A g \in {"load", "parse", "inspect", "expand", "preflight"} : Passed(g)
GateIdx(g) == CHOOSE i \in 1..Len(GateOrder) : GateOrder[i] = g
\* an early-exit flag ends the invocation with 0 at its own gate; a defect located at a later
\* gate is then never looked at (e.g. --validate returns before the run space is expanded)
EarlyIdx == IF sc.validate THEN GateIdx("validate_flag")
            ELSE IF sc.rsDryRun THEN GateIdx("rs_dry_run")
            ELSE IF sc.dryRun THEN GateIdx("dry_run") ELSE Len(GateOrder) + 1
Detected == sc.defect # "none" /\ GateIdx(GateOf(sc.defect)) < EarlyIdx
ExitTable == Terminal =>
    IF Detected THEN exit = CodeOf(sc.defect) /\ started = 0
    ELSE IF EarlyIdx <= Len(GateOrder) THEN exit = 0 /\ started = 0
    ELSE /\ (exit = 0) <=> (completed = sc.planned)
         /\ (exit = 4) <=> (sc.failAt # 0 /\ sc.failKind = "error")
         /\ (exit = 5) <=> (sc.failAt # 0 /\ sc.failKind = "interrupt")
         /\ exit \in {0, 4, 5}
         /\ sc.failAt # 0 => started = sc.failAt /\ completed = sc.failAt - 1
StopAfterFailure == [][(exit \in {4, 5}) => (started' = started)]_vars
(***************************** properties (C09, launch level) *************)
LaunchBracket == Terminal /\ sc.traced /\ sc.runSpace = "ok" /\ started > 0 =>
    /\ records[1] = LS /\ records[Len(records)] = LE
    /\ Cardinality({i \in 1..Len(records) : records[i] = LS}) = 1
    /\ Cardinality({i \in 1..Len(records) : records[i] = LE}) = 1
RunsInPlanOrder == \A i \in 1..Len(records) : (records[i] \notin {LS, LE}) =>
                      records[i][2] = i - (IF sc.runSpace = "ok" /\ sc.traced THEN 1 ELSE 0)

Case == [sc |-> sc, exit |-> exit, started |-> started, completed |-> completed, records |-> records]
EmitInv == Terminal => PrintT(ToJson(Case))
=============================================================================
