------------------------------ MODULE SafeExpr ------------------------------
(***************************************************************************)
(* The safe-expression policy of sweep parameter expressions               *)
(* (semantiva/utils/safe_eval.py: _SafeVisitor, ExpressionEvaluator).      *)
(* An expression is a one-hole path through the interpreter's expression   *)
(* grammar (AstGrammar, generated): stack = <<[k, f], ...>> the node kinds *)
(* descended through with the field taken, cur = the kind at the hole;     *)
(* every sibling position holds the canonical safe filler of its sort.     *)
(* Because acceptance is compositional, an unvisited child position is     *)
(* exactly a path whose leaf is forbidden but accepted.                    *)
(* Refinements of two kinds:                                               *)
(*   Name   : "Name" (a declared variable), "NameUndeclared", "NameFunc"   *)
(*            (a whitelisted function name used as a variable)             *)
(*   Call   : "Call" (direct call of a whitelisted function),              *)
(*            "CallUnknownFunc", "CallDeclaredVar", "CallAttr" (callee is  *)
(*            an attribute), "CallLambda" (callee is an expression)        *)
(* Two definitions of acceptance:                                          *)
(*   Safe            the documented policy, stated over the whole path     *)
(*   VisitorAccepts  the traversal of _SafeVisitor, position by position;  *)
(*                   VisitKeywords = FALSE models the pinned tree, whose   *)
(*                   visit_Call never looked at node.keywords              *)
(***************************************************************************)
EXTENDS AstGrammar, Integers, FiniteSets, TLC, Json

CONSTANTS MaxDepth, VisitKeywords

NameVariants == {"NameUndeclared", "NameFunc"}
CallVariants == {"CallUnknownFunc", "CallDeclaredVar", "CallAttr", "CallLambda"}
Base(k) == IF k \in NameVariants THEN "Name" ELSE IF k \in CallVariants THEN "Call" ELSE k
HoleKinds(sort) == IF sort = "expr" THEN ExprKinds \cup NameVariants \cup CallVariants
                   ELSE IF sort \in OpFamilies THEN OpsOf(sort)
                   ELSE IF sort \in AuxKinds THEN {sort} ELSE {}
Descendable(sort) == HoleKinds(sort) # {}

\* the documented whitelist
AllowedKinds == {"BinOp", "UnaryOp", "BoolOp", "Compare", "IfExp", "Call", "Name", "Constant", "Tuple"}
AllowedOps == {"Add", "Sub", "Mult", "Div", "FloorDiv", "Mod", "Pow", "USub", "UAdd", "And", "Or",
               "Eq", "NotEq", "Lt", "LtE", "Gt", "GtE"}
IsOp(k) == \E fam \in OpFamilies : k \in OpsOf(fam)

KindOK(k) == IF IsOp(k) THEN k \in AllowedOps
             ELSE k \in AllowedKinds      \* the Name / Call variants and every aux kind (keyword, ...) are not

VARIABLES stack, cur
vars == <<stack, cur>>

Init == stack = <<>> /\ cur \in HoleKinds("expr")
\* the callee position of a call is fixed by the variant, not a hole
Descend == /\ Len(stack) < MaxDepth /\ ~IsOp(cur)
           /\ \E i \in 1..Len(FieldsOf(Base(cur))) :
                LET fd == FieldsOf(Base(cur))[i] IN
                /\ Descendable(fd.s)
                /\ ~(Base(cur) = "Call" /\ fd.f = "func")
                /\ stack' = Append(stack, [k |-> cur, f |-> fd.f])
                /\ cur' \in HoleKinds(fd.s)
Next == Descend
Spec == Init /\ [][Next]_vars

(******************************* policy ***********************************)
Safe == /\ \A i \in 1..Len(stack) : KindOK(stack[i].k)
        /\ KindOK(cur)

(******************************* visitor model ****************************)
\* does the traversal reach position i+1 of the path from position i ?
Visits(k, f) == IF Base(k) = "Call" THEN (f = "args" \/ (f = "keywords" /\ VisitKeywords))
                ELSE TRUE                       \* generic_visit iterates every field
\* the node check performed when a node is visited
NodeCheck(k) == IF Base(k) = "Call" THEN k = "Call"          \* callee must be a whitelisted bare name
                ELSE IF Base(k) = "Name" THEN k = "Name"     \* name must be a declared variable
                ELSE KindOK(k)
RECURSIVE VisitFrom(_)
VisitFrom(i) ==   \* visiting position i of the path (i = Len(stack) + 1 is the hole)
    IF i = Len(stack) + 1 THEN NodeCheck(cur)
    ELSE /\ NodeCheck(stack[i].k)
         /\ (Visits(stack[i].k, stack[i].f) => VisitFrom(i + 1))
VisitorAccepts == VisitFrom(1)

VisitorMatchesPolicy == VisitorAccepts <=> Safe

Case == [stack |-> stack, cur |-> cur, safe |-> Safe]
EmitInv == PrintT(ToJson(Case))
=============================================================================
