---------------------------- MODULE MC_JobQueue ----------------------------
EXTENDS JobQueue
J3 == {1, 2, 3}
W2 == {"w1", "w2"}
OutMixed == {[j \in J3 |-> IF j = 2 THEN "fail" ELSE "ok"]}
OutAll3 == [J3 -> {"ok", "fail"}]
J4 == {1, 2, 3, 4}
W3 == {"w1", "w2", "w3"}
OutMixed4 == {[j \in J4 |-> IF j \in {1, 4} THEN "fail" ELSE "ok"]}
=============================================================================
