------------------------------ MODULE Library ------------------------------
(***************************************************************************)
(* The abstract half of the component library (DESIGN.md 2.2).  Every     *)
(* node of a program is a uniform record                                   *)
(*    [kind, cfg, k1, k2, sw]                                              *)
(* kind : template name (table below)                                      *)
(* cfg  : configured parameters, a function  name -> Int  (<<>> if none);  *)
(*        the name "bogus" models an unknown configuration parameter       *)
(* k1,k2: context keys used by the template ("" when unused)               *)
(* sw   : the explicit value sequence of an embedded parameter sweep       *)
(*                                                                         *)
(* kind         concrete processor (vharness.vlib / semantiva.examples)    *)
(* Src          FloatValueDataSource            value (no default)         *)
(* SrcDef       FloatValueDataSourceWithDefault value = 42                 *)
(* Src0         FloatDataSource                 -> 123                     *)
(* Mul, MulDef  FloatMultiplyOperation[WithDefault]  factor (-- / 2)       *)
(* Add, Sq      FloatAddOperation (addend), FloatSquareOperation           *)
(* Probe        FloatCollectValueProbe, context_key = k1 ("" = missing)    *)
(* Rename       rename:k1:k2      Delete  delete:k1                        *)
(* Template     template:"x={k1}":k2                                       *)
(* SliceMul, SliceMulDef  slice:FloatMultiplyOperation[..]:FloatDataCollection *)
(* SliceProbe   slice:FloatCollectValueProbe:FloatDataCollection, key k1   *)
(* Sum          FloatCollectionSumOperation                                *)
(* Sink         FloatDataSink                                              *)
(* CtxW         VCtxWriteOperation: declares "w", writes w := value,       *)
(*              returns value + 1                                          *)
(* CtxWBad      VCtxBadWriteOperation: writes undeclared key "u"           *)
(* Boom         VBoomOperation: raises ValueError                          *)
(* Abort        VAbortOperation: raises a BaseException (interrupt-class)  *)
(* SweepSrc     derive.parameter_sweep over FloatValueDataSource,          *)
(*              variables {t: values sw}, parameters {value: "2 * t"}      *)
(* SweepMul     sweep over FloatMultiplyOperation, parameters {factor: t}  *)
(* SweepSrcCtx  like SweepSrc with variables {t: from_context k1}          *)
(* PSrc         FloatPayloadSource -> 456         PSink  FloatPayloadSink  *)
(* PSrcInj      VInjectPayloadSource -> 9, injects b = 7 (collision fails) *)
(* ProbeP       VScaleProbe: ctx[k1] := value * factor (factor = 1)        *)
(* Touch        VTouchOperation: identity that logs its invocation         *)
(* MulKw        VKwScale: value * factor, `factor` a KEYWORD-ONLY parameter *)
(*              (def _process_logic(self, data, *, factor=2.0)); MulKwReq   *)
(*              the same without default                                    *)
(* CtxWP        VCtxScaleWrite: returns value * factor, writes w := result  *)
(* SliceCtxW    slice:VCtxScaleWrite:FloatDataCollection (per item; the     *)
(*              last item's write is what remains under w)                  *)
(* CtxBind      VCtxBump with parameters {context_key: k2} (a context      *)
(*              processor whose output key is bound per node): ctx[k2] :=  *)
(*              a + 1 where a is the parameter named "a"                   *)
(* FitM         ModelFittingContextProcessor with the variable mapping     *)
(*              {independent_var_key: t_values, dependent_var_key: a} and   *)
(*              fitting_model model:VSumModel: ctx[k2] := sum(a) + len(t_values) *)
(*              (k2 = "": the default output key "fit.parameters")          *)
(* IncIP        VInPlaceIncrement: adds 1 to the payload in place and      *)
(*              returns the object it received                             *)
(* SweepCtxW    sweep over VCtxScaleWrite, parameters {factor: t}: one      *)
(*              element per step, every step writes w (last one remains)    *)
(***************************************************************************)
EXTENDS Values

\* "a.b" / "a_b": key names that differ only in a character that class-name sanitisation folds together
Keys == {"value", "factor", "addend", "a", "b", "w", "t_values", "a.b", "a_b", "fit.parameters"}

Node(kind, cfg, k1, k2, sw) == [kind |-> kind, cfg |-> cfg, k1 |-> k1, k2 |-> k2, sw |-> sw]
N0(kind)          == Node(kind, <<>>, "", "", <<>>)
NC(kind, p, val)  == Node(kind, [x \in {p} |-> val], "", "", <<>>)
NK(kind, k1, k2)  == Node(kind, <<>>, k1, k2, <<>>)
NS(kind, sw)      == Node(kind, <<>>, "", "", sw)
WithBogus(n)      == [n EXCEPT !.cfg = [x \in (DOMAIN n.cfg) \cup {"bogus"} |->
                                           IF x \in DOMAIN n.cfg THEN n.cfg[x] ELSE 1]]

SourceKinds  == {"Src", "SrcDef", "Src0", "SweepSrc", "SweepSrcCtx", "PSrc", "PSrcInj"}
FloatInKinds == {"Mul", "MulDef", "MulKw", "MulKwReq", "Add", "Sq", "Probe", "ProbeP", "Sink", "PSink", "Touch", "CtxW", "CtxWBad", "Boom", "Abort", "SweepMul",
                 "CtxWP", "SweepCtxW", "IncIP"}
CollInKinds  == {"SliceMul", "SliceMulDef", "SliceProbe", "Sum", "SliceCtxW"}
CtxKinds     == {"Rename", "Delete", "Template", "CtxBind", "FitM"}
FitKey(n)    == IF n.k2 = "" THEN "fit.parameters" ELSE n.k2
ProbeKinds   == {"Probe", "SliceProbe", "ProbeP"}
SweepKinds   == {"SweepSrc", "SweepMul", "SweepSrcCtx", "SweepCtxW"}
PassKinds    == ProbeKinds \cup {"Sink", "PSink"} \cup CtxKinds      \* data passes through unchanged

ParamNames(n) ==
    CASE n.kind \in {"Src", "SrcDef"}                          -> {"value"}
      [] n.kind \in {"Mul", "MulDef", "MulKw", "MulKwReq", "SliceMul", "SliceMulDef", "CtxWP", "SliceCtxW"} -> {"factor"}
      [] n.kind = "Add"                                        -> {"addend"}
      [] n.kind = "ProbeP"                                     -> {"factor"}
      [] n.kind = "CtxBind"                                    -> {"a"}
      [] n.kind = "FitM"                                       -> {"t_values", "a"}
      [] n.kind \in CtxKinds                                   -> {n.k1}
      [] n.kind = "SweepSrcCtx"                                -> {n.k1}
      [] OTHER                                                 -> {}

HasDefault(n, p) == \/ n.kind = "SrcDef" /\ p = "value"
                    \/ n.kind \in {"MulDef", "MulKw", "SliceMulDef", "ProbeP"} /\ p = "factor"
Default(n, p)    == IF n.kind = "SrcDef" THEN Num(42) ELSE IF n.kind = "ProbeP" THEN Num(1) ELSE Num(2)

\* generated classes whose _process_logic takes **kwargs accept any configuration key
KwargsAllowed(n) == n.kind \in (CtxKinds \ {"CtxBind", "FitM"}) \cup SweepKinds

Configured(n, p) == p \in DOMAIN n.cfg
UnknownParams(n) == IF KwargsAllowed(n) THEN {} ELSE (DOMAIN n.cfg) \ ParamNames(n)
Constructible(n) == /\ UnknownParams(n) = {}
                    /\ (n.kind \in ProbeKinds => n.k1 # "")

InT(n) == IF n.kind \in SourceKinds THEN "none"
          ELSE IF n.kind \in FloatInKinds THEN "float"
          ELSE IF n.kind \in CollInKinds THEN "coll" ELSE "any"

\* "same" = the node passes its input type through
OutT(n) == IF n.kind \in {"PSrc", "PSrcInj", "Touch", "Src", "SrcDef", "Src0", "Mul", "MulDef", "MulKw", "MulKwReq", "Add", "Sq", "CtxW", "CtxWBad", "Boom", "Abort", "Sum", "CtxWP", "IncIP"} THEN "float"
           ELSE IF n.kind \in {"SweepSrc", "SweepSrcCtx", "SweepMul", "SliceMul", "SliceMulDef", "SliceCtxW", "SweepCtxW"} THEN "coll"
           ELSE "same"

Created(n) == CASE n.kind \in ProbeKinds             -> {n.k1}
                [] n.kind \in {"Rename", "Template", "CtxBind"} -> {n.k2}
                [] n.kind = "FitM"                    -> {FitKey(n)}
                [] n.kind \in {"CtxW", "CtxWBad", "CtxWP", "SliceCtxW"} -> {"w"}     \* declared keys (CtxWBad writes another one)
                [] n.kind = "SweepCtxW"              -> {"t_values", "w"}   \* the element's declared key + the sweep's own
                [] n.kind = "PSrcInj"                -> {"b"}
                [] n.kind \in SweepKinds             -> {"t_values"}
                [] OTHER                             -> {}
Suppressed(n) == IF n.kind \in {"Rename", "Delete"} THEN {n.k1} ELSE {}

(***************************************************************************)
(* Parameter resolution: node configuration > context > processor default  *)
(***************************************************************************)
Missing == [t |-> "missing", v |-> 0, items |-> <<>>, bt |-> "", d |-> 0]

ArgSrc(n, p, ctx) == IF Configured(n, p) THEN "node"
                     ELSE IF ctx[p] # Absent THEN "context"
                     ELSE IF HasDefault(n, p) THEN "default" ELSE "missing"
\* a parameter configured as YAML null: the node configuration wins and the value passed is None
NullCfg == -9999
CfgVal(n, p) == IF n.cfg[p] = NullCfg THEN Null ELSE Num(n.cfg[p])
ArgVal(n, p, ctx) == IF Configured(n, p) THEN CfgVal(n, p)
                     ELSE IF ctx[p] # Absent THEN ctx[p]
                     ELSE IF HasDefault(n, p) THEN Default(n, p) ELSE Missing

Args(n, ctx) == [p \in ParamNames(n) |-> ArgVal(n, p, ctx)]
Unresolvable(n, ctx) == {p \in ParamNames(n) : ArgSrc(n, p, ctx) = "missing"}

(***************************************************************************)
(* Apply: effect of a constructible node whose type gate passed and whose  *)
(* parameters all resolved.  st \in {"ok", "proc", "undeclared", "abort"}  *)
(***************************************************************************)
Ok(d, c)   == [st |-> "ok", data |-> d, ctx |-> c]
Bad(s, d, c) == [st |-> s, data |-> d, ctx |-> c]

Set(ctx, k, val) == [ctx EXCEPT ![k] = val]

SweepOut(n, data, ctx, seq) ==
    LET out == IF n.kind = "SweepMul" THEN [i \in 1..Len(seq) |-> data.v * seq[i]]
                                       ELSE [i \in 1..Len(seq) |-> 2 * seq[i]]
    IN Ok(Coll(out), Set(ctx, "t_values", List(seq)))

Apply(n, data, ctx, arg) ==
    CASE n.kind \in {"Src", "SrcDef"} ->
            IF IsNum(arg["value"]) THEN Ok(Float(arg["value"].v), ctx) ELSE Bad("proc", data, ctx)
      [] n.kind = "Src0" -> Ok(Float(123), ctx)
      [] n.kind \in {"Mul", "MulDef", "MulKw", "MulKwReq"} ->
            IF IsNum(arg["factor"]) THEN Ok(Float(data.v * arg["factor"].v), ctx) ELSE Bad("proc", data, ctx)
      [] n.kind = "Add" ->
            IF IsNum(arg["addend"]) THEN Ok(Float(data.v + arg["addend"].v), ctx) ELSE Bad("proc", data, ctx)
      [] n.kind = "Sq"   -> Ok(Float(data.v * data.v), ctx)
      [] n.kind = "IncIP" -> Ok(Float(data.v + 1), ctx)
      [] n.kind = "Probe" -> Ok(data, Set(ctx, n.k1, Num(data.v)))
      [] n.kind = "SliceProbe" -> Ok(data, Set(ctx, n.k1, List(data.items)))
      [] n.kind \in {"Sink", "PSink", "Touch"} -> Ok(data, ctx)
      [] n.kind = "PSrc" -> Ok(Float(456), ctx)
      [] n.kind = "PSrcInj" ->      \* PayloadSourceKeyCollisionFails: injected keys must not exist yet
            IF ctx["b"] # Absent THEN Bad("proc", data, ctx) ELSE Ok(Float(9), Set(ctx, "b", Num(7)))
      [] n.kind = "ProbeP" ->
            IF IsNum(arg["factor"]) THEN Ok(data, Set(ctx, n.k1, Num(data.v * arg["factor"].v))) ELSE Bad("proc", data, ctx)
      [] n.kind = "CtxW" -> Ok(Float(data.v + 1), Set(ctx, "w", Num(data.v)))
      [] n.kind = "CtxWP" ->
            IF IsNum(arg["factor"]) THEN Ok(Float(data.v * arg["factor"].v), Set(ctx, "w", Num(data.v * arg["factor"].v)))
            ELSE Bad("proc", data, ctx)
      [] n.kind = "SliceCtxW" ->
            IF data.items = <<>> THEN Ok(Coll(<<>>), ctx)
            ELSE IF IsNum(arg["factor"])
                 THEN Ok(Coll([i \in 1..Len(data.items) |-> data.items[i] * arg["factor"].v]),
                         Set(ctx, "w", Num(data.items[Len(data.items)] * arg["factor"].v)))
                 ELSE Bad("proc", data, ctx)
      [] n.kind = "SweepCtxW" ->
            Ok(Coll([i \in 1..Len(n.sw) |-> data.v * n.sw[i]]),
               Set(Set(ctx, "w", Num(data.v * n.sw[Len(n.sw)])), "t_values", List(n.sw)))
      [] n.kind = "CtxWBad" -> Bad("undeclared", data, ctx)
      [] n.kind = "Boom" -> Bad("proc", data, ctx)
      [] n.kind = "Abort" -> Bad("abort", data, ctx)
      [] n.kind \in {"SliceMul", "SliceMulDef"} ->
            IF data.items = <<>> THEN Ok(Coll(<<>>), ctx)
            ELSE IF IsNum(arg["factor"])
                 THEN Ok(Coll([i \in 1..Len(data.items) |-> data.items[i] * arg["factor"].v]), ctx)
                 ELSE Bad("proc", data, ctx)
      [] n.kind = "Sum" -> IF data.items = <<>> THEN Bad("proc", data, ctx) ELSE Ok(Float(SumSeq(data.items)), ctx)
      [] n.kind = "Rename" ->
            \* RenameRequiresKey: the value arrives as the resolved parameter k1; the
            \* destination is written first, then the source key is deleted from the context.
            \* RenameOfNoneIsNoOp: a key holding None is treated as "nothing to rename".
            IF arg[n.k1].t = "null" THEN Ok(data, ctx)
            ELSE LET c2 == Set(ctx, n.k2, arg[n.k1])
                 IN IF c2[n.k1] = Absent THEN Bad("proc", data, c2) ELSE Ok(data, Set(c2, n.k1, Absent))
      [] n.kind = "Delete" ->
            IF arg[n.k1].t = "null" THEN Ok(data, ctx)             \* DeleteOfNoneIsNoOp
            ELSE IF ctx[n.k1] = Absent THEN Bad("proc", data, ctx) ELSE Ok(data, Set(ctx, n.k1, Absent))
      [] n.kind = "Template" -> Ok(data, Set(ctx, n.k2, Str(arg[n.k1])))
      [] n.kind = "FitM" ->
            IF arg["t_values"].t = "l" /\ arg["a"].t = "l"
            THEN Ok(data, Set(ctx, FitKey(n), Num(SumSeq(arg["a"].items) + Len(arg["t_values"].items))))
            ELSE Bad("proc", data, ctx)
      [] n.kind = "CtxBind" -> IF IsNum(arg["a"]) THEN Ok(data, Set(ctx, n.k2, Num(arg["a"].v + 1))) ELSE Bad("proc", data, ctx)
      [] n.kind \in {"SweepSrc", "SweepMul"} -> SweepOut(n, data, ctx, n.sw)
      [] n.kind = "SweepSrcCtx" ->
            IF arg[n.k1].t = "l" /\ arg[n.k1].items # <<>>
            THEN SweepOut(n, data, ctx, arg[n.k1].items) ELSE Bad("proc", data, ctx)
=============================================================================
