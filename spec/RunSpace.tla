------------------------------ MODULE RunSpace ------------------------------
(***************************************************************************)
(* Run-space expansion (parse_pipeline_config + expand_run_space).         *)
(* A specification:                                                        *)
(*   [combine, maxRuns, blocks]   blocks : Seq of                          *)
(*   [mode, ctx, src]   ctx : key -> column length (a function on a subset *)
(*                      of the key alphabet); column values are            *)
(*                      Val(key, 1), Val(key, 2), ...                      *)
(*   src = NoSrc or [mode, cols, select, rename]: file columns cols        *)
(*         (key -> length), optional select (set of keys, or {"*"} = none) *)
(*         and rename (function old -> new)                                *)
(* modes: "bp" = by_position, "comb" = combinatorial.                      *)
(* One action per phase of the code; sizes are planned from lengths only,  *)
(* the cap is checked on the planned size, and only then the runs are      *)
(* materialised (CapBeforeMaterialise).                                    *)
(***************************************************************************)
EXTENDS Integers, Sequences, FiniteSets, TLC, Json

CONSTANTS BlockPool,      \* blocks a specification is built from
          MaxBlocks, Combines, MaxRunsSet

VARIABLES spec, phase, bi, seenKeys, sizes, err, planned, result, materialised
vars == <<spec, phase, bi, seenKeys, sizes, err, planned, result, materialised>>

NoSrc == [mode |-> "none", cols |-> <<>>, select |-> {"*"}, rename |-> <<>>]
KeyOrder == <<"a", "b", "c", "d", "e">>          \* sorted(key) order of the alphabet
KIdx(k) == CHOOSE i \in 1..Len(KeyOrder) : KeyOrder[i] = k
Val(k, i) == 10 * KIdx(k) + i

\* sorted sequence of a set of keys
SortedKeys(S) == LET idx == {KIdx(k) : k \in S}
                     f[n \in 0..Len(KeyOrder)] ==
                        IF n = 0 THEN <<>> ELSE IF n \in idx THEN Append(f[n - 1], KeyOrder[n]) ELSE f[n - 1]
                 IN f[Len(KeyOrder)]

(*********************** source: select, rename ***************************)
SelMissing(s) == IF s.select = {"*"} THEN {} ELSE s.select \ DOMAIN s.cols
Selected(s) == IF s.select = {"*"} THEN DOMAIN s.cols ELSE s.select \cap DOMAIN s.cols
Renamed(s, k) == IF k \in DOMAIN s.rename THEN s.rename[k] ELSE k
RenameCollision(s) == \E k1, k2 \in Selected(s) : k1 # k2 /\ Renamed(s, k1) = Renamed(s, k2)
SrcKeys(s) == IF s.mode = "none" THEN {} ELSE {Renamed(s, k) : k \in Selected(s)}
\* length of the (renamed) source column nk
SrcLen(s, nk) == LET k == CHOOSE k \in Selected(s) : Renamed(s, k) = nk IN s.cols[k]
SrcOrig(s, nk) == CHOOSE k \in Selected(s) : Renamed(s, k) = nk

(*********************** sizes (planning, lengths only) *******************)
Lens(f, S) == {f[k] : k \in S}
RECURSIVE ProdOver(_, _)
ProdOver(f, S) == IF S = {} THEN 1 ELSE LET k == CHOOSE k \in S : TRUE IN f[k] * ProdOver(f, S \ {k})

\* size of an entries map under a mode; -1 = length mismatch
EntriesSize(lenOf, S, mode) ==
    IF S = {} THEN 0
    ELSE IF mode = "bp" THEN (IF Cardinality(Lens(lenOf, S)) > 1 THEN -1 ELSE CHOOSE n \in Lens(lenOf, S) : TRUE)
    ELSE ProdOver(lenOf, S)

SrcLenOf(s) == [nk \in SrcKeys(s) |-> SrcLen(s, nk)]
BlockSrcSize(b) == EntriesSize(SrcLenOf(b.src), SrcKeys(b.src), b.src.mode)
BlockCtxSize(b) == EntriesSize(b.ctx, DOMAIN b.ctx, b.mode)

\* [ok, size] of a block
BlockPlan(b) ==
    LET cs == BlockCtxSize(b) ss == BlockSrcSize(b)
        hasC == DOMAIN b.ctx # {} hasS == SrcKeys(b.src) # {}
    IN IF (hasC /\ cs = -1) \/ (hasS /\ ss = -1) THEN [ok |-> FALSE, size |-> 0]
       ELSE IF b.mode = "bp"
            THEN (IF hasC /\ hasS /\ cs # ss THEN [ok |-> FALSE, size |-> 0]
                  ELSE [ok |-> TRUE, size |-> IF hasC THEN cs ELSE IF hasS THEN ss ELSE 0])
            ELSE [ok |-> TRUE, size |-> (IF hasC THEN cs ELSE 1) * (IF hasS THEN ss ELSE 1)]

BlockError(b, seen) ==
    IF b.src.mode # "none" /\ SelMissing(b.src) # {} THEN "select_missing"
    ELSE IF b.src.mode # "none" /\ RenameCollision(b.src) THEN "rename_collision"
    ELSE IF (DOMAIN b.ctx) \cap SrcKeys(b.src) # {} THEN "dup_within"
    ELSE IF ~BlockPlan(b).ok THEN "length_mismatch"
    ELSE IF seen \cap ((DOMAIN b.ctx) \cup SrcKeys(b.src)) # {} THEN "dup_across"
    ELSE "none"

(*********************** closed form of the runs **************************)
\* the t-th (0-based) run of an entries map: keys sorted, by_position aligned,
\* combinatorial = mixed radix with the LAST sorted key varying fastest
Stride(ks, lenOf, q) == LET later == {ks[j] : j \in (q + 1)..Len(ks)} IN ProdOver(lenOf, later)
PIndex(ks, lenOf, t, q) == (t \div Stride(ks, lenOf, q)) % lenOf[ks[q]]

KIdx2(ks, k) == CHOOSE q \in 1..Len(ks) : ks[q] = k
EntriesRun(valOf(_, _), lenOf, S, mode, t) ==
    LET ks == SortedKeys(S)
    IN [k \in S |-> IF mode = "bp" THEN valOf(k, t + 1)
                    ELSE valOf(k, PIndex(ks, lenOf, t, KIdx2(ks, k)) + 1)]

Merge(f, g) == [k \in (DOMAIN f) \cup (DOMAIN g) |-> IF k \in DOMAIN g THEN g[k] ELSE f[k]]

BlockRun(b, t) ==
    LET hasC == DOMAIN b.ctx # {} hasS == SrcKeys(b.src) # {}
        ss == IF hasS THEN BlockSrcSize(b) ELSE 1
        srcVal(nk, i) == Val(SrcOrig(b.src, nk), i)
        cRun(u) == IF hasC THEN EntriesRun(Val, b.ctx, DOMAIN b.ctx, b.mode, u) ELSE <<>>
        sRun(u) == IF hasS THEN EntriesRun(srcVal, SrcLenOf(b.src), SrcKeys(b.src), b.src.mode, u) ELSE <<>>
    IN IF b.mode = "bp" THEN Merge(cRun(t), sRun(t))
       ELSE Merge(cRun(t \div ss), sRun(t % ss))       \* context-major, source fastest

RECURSIVE ProdSeq(_)
ProdSeq(s) == IF s = <<>> THEN 1 ELSE Head(s) * ProdSeq(Tail(s))
BStride(sz, j) == ProdSeq(SubSeq(sz, j + 1, Len(sz)))

RECURSIVE MergeAll(_)
MergeAll(fs) == IF fs = <<>> THEN <<>> ELSE Merge(Head(fs), MergeAll(Tail(fs)))

FinalRun(sp, sz, n) ==     \* n 0-based
    MergeAll([j \in 1..Len(sp.blocks) |->
                 BlockRun(sp.blocks[j], IF sp.combine = "bp" THEN n ELSE (n \div BStride(sz, j)) % sz[j])])

(****************************** actions ***********************************)
Init == /\ spec \in {[combine |-> c, maxRuns |-> m, blocks |-> <<>>] : c \in Combines, m \in MaxRunsSet}
        /\ phase = "build" /\ bi = 1 /\ seenKeys = {} /\ sizes = <<>>
        /\ err = "none" /\ planned = -1 /\ result = <<>> /\ materialised = FALSE

Reject(e) == /\ err' = e /\ phase' = "rejected"
             /\ UNCHANGED <<spec, bi, seenKeys, sizes, planned, result, materialised>>

\* the specification is chosen block by block (so that simulation can sample 3-4 block specs)
AddBlock == /\ phase = "build" /\ Len(spec.blocks) < MaxBlocks
            /\ \E b \in BlockPool : spec' = [spec EXCEPT !.blocks = Append(@, b)]
            /\ UNCHANGED <<phase, bi, seenKeys, sizes, err, planned, result, materialised>>
Start == /\ phase = "build" /\ phase' = "blocks"
         /\ UNCHANGED <<spec, bi, seenKeys, sizes, err, planned, result, materialised>>

PlanBlock == /\ phase = "blocks" /\ bi <= Len(spec.blocks)
             /\ LET b == spec.blocks[bi] e == BlockError(b, seenKeys)
                IN IF e # "none" THEN Reject(e)
                   ELSE /\ sizes' = Append(sizes, BlockPlan(b).size)
                        /\ seenKeys' = seenKeys \cup (DOMAIN b.ctx) \cup SrcKeys(b.src)
                        /\ bi' = bi + 1
                        /\ UNCHANGED <<spec, phase, err, planned, result, materialised>>

Combine == /\ phase = "blocks" /\ bi = Len(spec.blocks) + 1
           /\ IF spec.combine = "bp" /\ Cardinality({sizes[j] : j \in 1..Len(sizes)}) > 1
              THEN Reject("combine_size_mismatch")
              ELSE /\ planned' = IF sizes = <<>> THEN 1
                                 ELSE IF spec.combine = "bp" THEN sizes[1] ELSE ProdSeq(sizes)
                   /\ phase' = "planned"
                   /\ UNCHANGED <<spec, bi, seenKeys, sizes, err, result, materialised>>

CapCheck == /\ phase = "planned"
            /\ IF planned > spec.maxRuns THEN Reject("max_runs")
               ELSE phase' = "capped" /\ UNCHANGED <<spec, bi, seenKeys, sizes, err, planned, result, materialised>>

Materialise == /\ phase = "capped"
               /\ result' = [n \in 1..planned |-> FinalRun(spec, sizes, n - 1)]
               /\ materialised' = TRUE /\ phase' = "done"
               /\ UNCHANGED <<spec, bi, seenKeys, sizes, err, planned>>

Next == AddBlock \/ Start \/ PlanBlock \/ Combine \/ CapCheck \/ Materialise
Spec == Init /\ [][Next]_vars

Terminal == phase \in {"done", "rejected"}
(****************************** properties ********************************)
CapBeforeMaterialise == materialised => planned <= spec.maxRuns
NoRunsOnReject == phase = "rejected" => result = <<>> /\ ~materialised
UnionKeys == phase = "done" => \A n \in 1..Len(result) : DOMAIN result[n] = seenKeys
CountIsPlanned == phase = "done" => Len(result) = planned
\* product order: consecutive runs differ first in the LAST block (rightmost fastest)
DistinctRuns == phase = "done" /\ spec.combine = "comb" =>
                   \A m, n \in 1..Len(result) : m # n => result[m] # result[n]

Case == [spec |-> spec, outcome |-> IF phase = "done" THEN "runs" ELSE err,
         planned |-> planned, runs |-> result, keys |-> seenKeys]
EmitInv == Terminal => PrintT(ToJson(Case))
=============================================================================
