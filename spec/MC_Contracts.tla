---------------------------- MODULE MC_Contracts ----------------------------
(* Families of descriptors for Contracts.tla: each family varies the features one group of catalogue rows  *)
(* talks about over ALL their values, the others held at the well-formed default; FamRandom draws full     *)
(* descriptors at random (simulation mode).  Every explored descriptor is emitted with the diagnostics the  *)
(* catalogue asks for and turned into a real class by the harness (props/x03.py).                           *)
EXTENDS Contracts, Json, TLCExt

Default == [ct |-> "DataOperation", inD |-> "cm", outD |-> "cm", inR |-> "type", outR |-> "type", xPlain |-> 0, xCM |-> FALSE,
            f1 |-> "absent", f2 |-> "absent", defMd |-> "dict", getMd |-> "dict", mCls |-> FALSE, mDoc |-> FALSE,
            mdIn |-> "F", mdOut |-> "F", params |-> "dict", inj |-> "absent", sup |-> "absent",
            reg |-> "meta", own |-> FALSE, sig |-> "clean", doc |-> "short", lim |-> "default", proc |-> "none"]

\* SVA001-004: declaration and return of the *_data_type methods
FamMethods == {[Default EXCEPT !.ct = c, !.inD = a, !.outD = b, !.inR = ra, !.outR = rb, !.xPlain = n, !.xCM = x] :
                 c \in {"DataOperation", "DataSource", "ContextProcessor", "none"}, a \in Decls, b \in Decls,
                 ra \in Rets, rb \in Rets, n \in 0..2, x \in BOOLEAN}
\* SVA005-012: functional methods of the IO categories
FamIO == {[Default EXCEPT !.ct = c, !.f1 = a, !.f2 = b, !.getMd = g, !.mdIn = i, !.mdOut = o] :
            c \in CTypes, a \in {"absent", "cm", "plain"}, b \in {"absent", "cm", "plain"}, g \in {"dict", "raises"},
            i \in {"absent", "null", "F"}, o \in {"absent", "null", "F"}}
\* SVA100, 101, 107, 2xx: metadata shape, required keys, registration, category requirements
FamMeta0 == {[Default EXCEPT !.ct = c, !.defMd = dm, !.getMd = gm, !.mCls = m1, !.mDoc = m2, !.mdIn = i, !.mdOut = o, !.reg = r] :
              c \in CTypes, dm \in MdShapes, gm \in MdShapes, m1 \in BOOLEAN, m2 \in BOOLEAN,
              i \in {"absent", "null", "NoDataType", "F"}, o \in {"absent", "null", "F", "G"}, r \in Regs}
FamMeta == {x \in FamMeta0 : x.reg = "meta" => (x.defMd # "absent" /\ x.getMd # "absent")}
\* SVA103-106, 221, 232: parameters and context-key lists
FamKeys == {[Default EXCEPT !.ct = c, !.params = p, !.inj = a, !.sup = b] :
              c \in {"DataOperation", "DataProbe", "DataSource", "ContextProcessor"}, p \in ParamVals, a \in KeyVals, b \in KeyVals}
\* SVA102, 241, 250: docstring, operate_context override, _process_logic signature
FamLogic == {[Default EXCEPT !.ct = c, !.sig = s, !.own = w, !.doc = dc, !.lim = l] :
               c \in CTypes, s \in Sigs, w \in BOOLEAN, dc \in Docs, l \in {"default", "ten"}}
\* SVA3xx: node classes against the processor they wrap
FamNodes == {[Default EXCEPT !.ct = c, !.mdIn = i, !.mdOut = o, !.proc = p, !.inD = a] :
               c \in SourceNodes \cup SinkNodes \cup ProbeNodes \cup {"DataOperation", "DataProbe"}, i \in TypeNames, o \in TypeNames, p \in Procs,
               a \in {"cm", "absent"}}

FamAll == <<FamMethods, FamIO, FamMeta, FamKeys, FamLogic, FamNodes>>
FamSmallMeta == <<FamMeta>>

\* sensitivity (must be VIOLATED): the equivalence does not survive dropping the registration clause from the positive definition
SensNoRegistration == ~Crash(d) => ((Errors(d) = {}) <=> (MethodsOK(d) /\ CategoryOK(d) /\ d.defMd = "dict" /\ d.getMd = "dict"
                                                           /\ ~d.mCls /\ ~d.mDoc /\ d.ct # "none" /\ KeysOK(d.inj) /\ KeysOK(d.sup) /\ ParamOK(d.params)))

Case(x) == [d |-> x, crash |-> Crash(x), raises |-> Raises(x), diags |-> IF Crash(x) THEN <<>> ELSE Diags(x),
            sev |-> IF Crash(x) THEN <<>> ELSE [i \in DOMAIN Diags(x) |-> Sev(Diags(x)[i])],
            wellformed |-> WellFormed(x)]
EmitInv == done => PrintT(ToJson(Case(d)))

-----------------------------------------------------------------------------
\* random full descriptors (tlc -simulate): one draw per behaviour
RandomDescriptor ==
    [ct |-> RandomElement(CTypes), inD |-> RandomElement(Decls), outD |-> RandomElement(Decls), inR |-> RandomElement(Rets),
     outR |-> RandomElement(Rets), xPlain |-> RandomElement(0..2), xCM |-> RandomElement(BOOLEAN),
     f1 |-> RandomElement({"absent", "cm", "plain"}), f2 |-> RandomElement({"absent", "cm", "plain"}),
     defMd |-> RandomElement({"dict", "dict", "list", "raises"} \cup MdShapes), getMd |-> RandomElement(MdShapes \ {"absent"}),
     mCls |-> RandomElement(BOOLEAN), mDoc |-> RandomElement(BOOLEAN), mdIn |-> RandomElement(TypeNames), mdOut |-> RandomElement(TypeNames),
     params |-> RandomElement(ParamVals), inj |-> RandomElement(KeyVals), sup |-> RandomElement(KeyVals), reg |-> RandomElement(Regs),
     own |-> RandomElement(BOOLEAN), sig |-> RandomElement(Sigs), doc |-> RandomElement(Docs), lim |-> RandomElement({"default", "ten"}),
     proc |-> RandomElement(Procs)]
RInit == d = Default /\ done = FALSE
Realisable(x) == IF x.reg = "meta" /\ (x.defMd = "absent" \/ x.getMd = "absent") THEN [x EXCEPT !.reg = "manual"] ELSE x
RNext == \/ done = FALSE /\ done' = TRUE /\ d' = Realisable(RandomDescriptor)
         \/ done /\ UNCHANGED vars
RSpec == RInit /\ [][RNext]_vars
=============================================================================
