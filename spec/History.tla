------------------------------ MODULE History ------------------------------
(***************************************************************************)
(* One interpreter process running a history of operations on a few        *)
(* configurations:                                                         *)
(*   Construct(c)        p = Pipeline(config c)                            *)
(*   Process(o, traced)  o.process(payload)  (o: an existing Pipeline)     *)
(*   Inspect(c)          build_inspection_payload(config c)                *)
(* What an operation OBSERVES (identities, result, normalised trace) must  *)
(* be a function of its arguments only (C04, C10); what it LEAVES BEHIND   *)
(* in process-wide registries must not depend on how often it ran (C18).   *)
(* Two implementation choices are parameters so that TLC can show the      *)
(* properties are sensitive to them:                                       *)
(*   CopiesSpec    execute() enriches a private copy of the canonical spec *)
(*                 (TRUE: repaired code; FALSE: the pinned tree mutated    *)
(*                 the Pipeline's shared spec, see known_findings C10)     *)
(*   RegPerRun     component classes registered by one run                 *)
(*                 (0: generated classes are reused; > 0: a class per run) *)
(***************************************************************************)
EXTENDS Integers, Sequences, FiniteSets, TLC

CONSTANTS Configs, MaxOps, CopiesSpec, RegPerRun, RegPerConfig

VARIABLES objs,       \* sequence of constructed pipelines: [cfg, spec \in {"clean","enriched"}]
          registry,   \* number of registered component classes
          obs,        \* history of observations [op, cfg, traced, id]
          nops, runsOf
vars == <<objs, registry, obs, nops, runsOf>>

\* the identity a traced run reports: hash of (configuration, state of the canonical spec it hashes)
PipelineId(c, specState) == <<c, specState>>

Init == objs = <<>> /\ registry = 0 /\ obs = <<>> /\ nops = 0 /\ runsOf = [c \in Configs |-> 0]

Construct(c) == /\ objs' = Append(objs, [cfg |-> c, spec |-> "clean"])
                /\ registry' = registry + (IF \E i \in 1..Len(objs) : objs[i].cfg = c THEN 0 ELSE RegPerConfig)
                /\ obs' = Append(obs, [op |-> "construct", cfg |-> c, traced |-> FALSE, id |-> PipelineId(c, "clean")])
                /\ UNCHANGED runsOf
Process(i, traced) ==
    /\ i \in 1..Len(objs)
    /\ LET o == objs[i] IN
       /\ obs' = Append(obs, [op |-> "process", cfg |-> o.cfg, traced |-> traced,
                              id |-> IF traced THEN PipelineId(o.cfg, o.spec) ELSE PipelineId(o.cfg, "clean")])
       /\ objs' = IF traced /\ ~CopiesSpec THEN [objs EXCEPT ![i].spec = "enriched"] ELSE objs
       /\ registry' = registry + RegPerRun
       /\ runsOf' = [runsOf EXCEPT ![o.cfg] = @ + 1]
Inspect(c) == /\ obs' = Append(obs, [op |-> "inspect", cfg |-> c, traced |-> FALSE, id |-> PipelineId(c, "clean")])
              /\ UNCHANGED <<objs, registry, runsOf>>

Next == /\ nops < MaxOps /\ nops' = nops + 1
        /\ \/ \E c \in Configs : Construct(c) \/ Inspect(c)
           \/ \E i \in 1..Len(objs), t \in BOOLEAN : Process(i, t)
Spec == Init /\ [][Next]_vars

\* an observation depends on the operation's arguments only
ObsIsFunctionOfArgs ==
    \A i, j \in 1..Len(obs) : (obs[i].cfg = obs[j].cfg) => obs[i].id = obs[j].id
\* registries are bounded by the number of distinct configurations, not by the number of runs
DistinctConfigs == {objs[i].cfg : i \in 1..Len(objs)}
RegistryBoundedByDistinctConfigs == registry <= RegPerConfig * Cardinality(DistinctConfigs)
=============================================================================
