------------------------------ MODULE Override ------------------------------
(***************************************************************************)
(* `semantiva run FILE --set path=value ...`: the configuration document   *)
(* as a tree, the dotted-path override algebra of cli._apply_override,     *)
(* and what the invocation then does with the EFFECTIVE configuration      *)
(* (structure check, inspection + validation, pre-flight of required       *)
(* context keys, the run).  The semantics of the effective configuration   *)
(* are not re-stated here: the node list the tree denotes is handed to     *)
(* Inspection.tla (Accepted, Req) and Pipeline.tla (NodeOutcome).          *)
(*                                                                         *)
(* Trees are tagged records so that TLC can always compare two of them:    *)
(*    [t |-> "m", c |-> f]   mapping, f a function on strings              *)
(*    [t |-> "l", c |-> s]   list, s a sequence                            *)
(*    [t |-> "n", c |-> i]   number    [t |-> "s", c |-> str]   string     *)
(*    [t |-> "z", c |-> 0]   YAML null                                     *)
(*                                                                         *)
(* Named behaviours of the code (each decided by reading _apply_override): *)
(*  OverrideNeverCreates   the last path component must already exist: a   *)
(*                         mapping key that is absent is "unknown", so an  *)
(*                         override can replace but never add or remove    *)
(*  PythonIndexing         a list component goes through int(): "02", "+2" *)
(*                         and " 2" mean 2, negative numbers count from    *)
(*                         the end, anything int() rejects is unknown      *)
(*  WholeSubtreeReplaced   the value (parsed as YAML) replaces the subtree *)
(*  AppliedInOrder         a later override sees the result of earlier ones*)
(*  RejectedMeansExit3     the first failing override ends the invocation  *)
(***************************************************************************)
EXTENDS Library, Json

CONSTANTS BaseDocs,     \* set of documents the invocation may start from
          Ctxs,         \* set of --context assignments (functions Keys -> value)
          Values,       \* set of override values (trees)
          Alphabet,     \* path components tried at every position
          MaxOv,        \* number of --set arguments
          AllSpellings  \* TRUE: list positions inside a path are tried in every spelling, FALSE: decimal only

\* Inspection / Pipeline as libraries of operators (their state machines are not used here)
I == INSTANCE Inspection WITH NodeSet <- {}, MaxLen <- 0, InitCtxs <- {}, InitDatas <- {}, MaxMag <- 0,
                              prog <- <<>>, ictx <- <<>>, idata <- <<>>, pc <- 0, data <- <<>>, ctx <- <<>>,
                              status <- "", failClass <- "", steps <- <<>>, writer <- <<>>, dyn <- <<>>

M(f)  == [t |-> "m", c |-> f]
L(s)  == [t |-> "l", c |-> s]
N(i)  == [t |-> "n", c |-> i]
S(x)  == [t |-> "s", c |-> x]
Z     == [t |-> "z", c |-> 0]
Fail  == [t |-> "fail", c |-> 0]
EmptyMap == M([x \in {} |-> 0])

(*************************** path components ******************************)
\* PythonIndexing: what int(part) gives; parts outside the table make int() raise
IntOf == [p \in {"0", "1", "2", "3", "4", "02", "+2", "-1", "-2", "-4", "-5"} |->
            CASE p = "0" -> 0 [] p = "1" -> 1 [] p \in {"2", "02", "+2"} -> 2 [] p = "3" -> 3 [] p = "4" -> 4
              [] p = "-1" -> -1 [] p = "-2" -> -2 [] p = "-4" -> -4 [] OTHER -> -5]
\* 1-based position addressed by `part` in a list of length n, 0 = unknown override key
Pos(part, n) == IF part \notin DOMAIN IntOf THEN 0
                ELSE LET i == IntOf[part]
                     IN IF i >= n THEN 0 ELSE IF i >= 0 THEN i + 1 ELSE IF i >= -n THEN n + i + 1 ELSE 0

HasChild(tree, part) == \/ tree.t = "m" /\ part \in DOMAIN tree.c
                        \/ tree.t = "l" /\ Pos(part, Len(tree.c)) # 0
Child(tree, part) == IF tree.t = "m" THEN tree.c[part] ELSE tree.c[Pos(part, Len(tree.c))]
Replace(tree, part, sub) == IF tree.t = "m" THEN [tree EXCEPT !.c[part] = sub]
                            ELSE [tree EXCEPT !.c[Pos(part, Len(tree.c))] = sub]

RECURSIVE SetAt(_, _, _)
SetAt(tree, path, val) ==
    IF path = <<>> \/ ~HasChild(tree, Head(path)) THEN Fail        \* OverrideNeverCreates
    ELSE IF Len(path) = 1 THEN Replace(tree, Head(path), val)      \* WholeSubtreeReplaced
    ELSE LET r == SetAt(Child(tree, Head(path)), Tail(path), val)
         IN IF r = Fail THEN Fail ELSE Replace(tree, Head(path), r)

RECURSIVE GetAt(_, _)
GetAt(tree, path) == IF path = <<>> THEN tree
                     ELSE IF ~HasChild(tree, Head(path)) THEN Fail
                     ELSE GetAt(Child(tree, Head(path)), Tail(path))

\* canonical spelling of a valid path (list components as their 1-based position): two spellings of
\* one place ("2", "02", "-2" in a list of four) are the same place
RECURSIVE Canon(_, _)
Canon(tree, path) == IF path = <<>> THEN <<>>
                     ELSE LET h == Head(path)
                              c == IF tree.t = "l" THEN <<Pos(h, Len(tree.c))>> ELSE <<h>>
                          IN c \o Canon(Child(tree, h), Tail(path))
IsPrefix2(a, b) == Len(a) <= Len(b) /\ SubSeq(b, 1, Len(a)) = a
Related(a, b) == IsPrefix2(a, b) \/ IsPrefix2(b, a)

\* all valid paths of a tree (canonical parts for maps, decimal index for lists)
RECURSIVE Paths(_)
Dec(i) == CASE i = 1 -> "0" [] i = 2 -> "1" [] i = 3 -> "2" [] i = 4 -> "3" [] OTHER -> "4"
Paths(tree) ==
    IF tree.t = "m" THEN UNION {{<<k>>} \cup {<<k>> \o q : q \in Paths(tree.c[k])} : k \in DOMAIN tree.c}
    ELSE IF tree.t = "l" THEN UNION {{<<Dec(i)>>} \cup {<<Dec(i)>> \o q : q \in Paths(tree.c[i])} : i \in 1..Len(tree.c)}
    ELSE {}

\* ... and with every spelling of a list position (PythonIndexing: "2", "02", "+2", "-2" are one place)
RECURSIVE PathsS(_)
PathsS(tree) ==
    IF tree.t = "m" THEN UNION {{<<k>>} \cup {<<k>> \o q : q \in PathsS(tree.c[k])} : k \in DOMAIN tree.c}
    ELSE IF tree.t = "l" THEN UNION {{<<sp>>} \cup {<<sp>> \o q : q \in PathsS(tree.c[Pos(sp, Len(tree.c))])} :
                                       sp \in {x \in DOMAIN IntOf : Pos(x, Len(tree.c)) # 0}}
    ELSE {}

\* the paths tried: every valid place, every one-component deviation from a valid prefix
\* (wrong key, out-of-range / negative / non-numeric index, descending through a scalar),
\* and one further component after such a deviation
Tried(tree) == LET pre == {<<>>} \cup (IF AllSpellings THEN PathsS(tree) ELSE Paths(tree))
                   one == {Append(q, a) : q \in pre, a \in Alphabet}
               IN one \cup {Append(q, "factor") : q \in (one \ pre)}

(************************ what the tree denotes ***************************)
KindNames == {"Src", "SrcDef", "Touch", "Mul", "MulDef", "Add", "Sq", "Sum"}

NodeOK(nd) == /\ nd.t = "m"
              /\ "processor" \in DOMAIN nd.c
              /\ nd.c["processor"].t = "s" /\ nd.c["processor"].c \in KindNames
              /\ ("parameters" \in DOMAIN nd.c => nd.c["parameters"].t \in {"m", "z"})    \* null = no parameters
              /\ DOMAIN nd.c \subseteq {"processor", "parameters"}
StructOK(d) == /\ d.t = "m" /\ "pipeline" \in DOMAIN d.c
               /\ d.c["pipeline"].t = "m" /\ "nodes" \in DOMAIN d.c["pipeline"].c
               /\ d.c["pipeline"].c["nodes"].t = "l"
               /\ \A i \in 1..Len(d.c["pipeline"].c["nodes"].c) : NodeOK(d.c["pipeline"].c["nodes"].c[i])

\* a parameter value that is not a number (null, text, a mapping, a list) reaches the processor
\* as it is and makes it fail (NullCfg stands for all of them: only "not a number" matters)
CfgOf(nd) == IF "parameters" \notin DOMAIN nd.c \/ nd.c["parameters"].t = "z" THEN <<>>
             ELSE LET pm == nd.c["parameters"].c
                  IN [x \in DOMAIN pm |-> IF pm[x].t = "n" THEN pm[x].c ELSE NullCfg]
ProgOf(d) == LET ns == d.c["pipeline"].c["nodes"].c
             IN [i \in 1..Len(ns) |-> Node(ns[i].c["processor"].c, CfgOf(ns[i]), "", "", <<>>)]

\* the run: the data values the execution witnesses (Touch nodes) saw, and how it ended
RECURSIVE RunFrom(_, _, _, _, _)
RunFrom(p, i, d, c, seen) ==
    IF i > Len(p) THEN [end |-> "ok", seen |-> seen]
    ELSE LET r == I!NodeOutcome(p[i], d, c)
         IN IF r.st # "ok" THEN [end |-> "fail", seen |-> seen]
            ELSE RunFrom(p, i + 1, r.data, r.ctx, IF p[i].kind = "Touch" THEN Append(seen, r.data.v) ELSE seen)

\* exit code and witnesses of the invocation whose effective configuration is d
Outcome(d, c) ==
    IF ~StructOK(d) THEN [exit |-> 3, seen |-> <<>>, why |-> "structure"]
    ELSE LET p == ProgOf(d)
         IN IF ~I!Accepted(p) THEN [exit |-> 3, seen |-> <<>>, why |-> "validation"]
            ELSE IF ~(I!Req(p) \subseteq I!Present(c)) THEN [exit |-> 3, seen |-> <<>>, why |-> "required-key"]
            ELSE LET r == RunFrom(p, 1, NoData, c, <<>>)
                 IN [exit |-> IF r.end = "ok" THEN 0 ELSE 4, seen |-> r.seen, why |-> r.end]

(****************************** the invocation ****************************)
VARIABLES doc, base, cx, applied, st
ovars == <<doc, base, cx, applied, st>>

OInit == doc \in BaseDocs /\ base = doc /\ cx \in Ctxs /\ applied = <<>> /\ st = "open"

ApplyOv == /\ st = "open" /\ Len(applied) < MaxOv
         /\ \E p \in Tried(doc), v \in Values :
               LET r == SetAt(doc, p, v)
               IN /\ applied' = Append(applied, [path |-> p, val |-> v])
                  /\ IF r = Fail THEN doc' = doc /\ st' = "rejected"        \* RejectedMeansExit3
                                 ELSE doc' = r /\ st' = "open"              \* AppliedInOrder
         /\ UNCHANGED <<cx, base>>
Go == st = "open" /\ st' = "decided" /\ UNCHANGED <<doc, base, cx, applied>>

ONext == ApplyOv \/ Go
OSpec == OInit /\ [][ONext]_ovars

Terminal == st \in {"rejected", "decided"}
Result == IF st = "rejected" THEN [exit |-> 3, seen |-> <<>>, why |-> "override"] ELSE Outcome(doc, cx)

(******************************* properties *******************************)
LastOv == applied'[Len(applied')]
\* a rejected override changes nothing
RejectKeeps == [][st' = "rejected" => doc' = doc]_ovars
\* read your write: the addressed place holds the value afterwards
ReadYourWrite == [][(st' = "open" /\ applied' # applied) => GetAt(doc', LastOv.path) = LastOv.val]_ovars
\* frame: every place that is not above or below the addressed one keeps its subtree
Frame == [][(st' = "open" /\ applied' # applied) =>
              \A q \in Paths(doc) : ~Related(Canon(doc, q), Canon(doc, LastOv.path)) => GetAt(doc', q) = GetAt(doc, q)]_ovars
\* OverrideNeverCreates: mapping key sets and list lengths on the way to the addressed place are unchanged
ShapeKept == [][(st' = "open" /\ applied' # applied) =>
              \A k \in 0..(Len(LastOv.path) - 1) :
                  LET a == GetAt(doc, SubSeq(LastOv.path, 1, k)) b == GetAt(doc', SubSeq(LastOv.path, 1, k))
                  IN a.t = b.t /\ (a.t = "m" => DOMAIN a.c = DOMAIN b.c) /\ (a.t = "l" => Len(a.c) = Len(b.c))]_ovars
\* algebra, checked over all pairs on the base documents: idempotence, last-wins on one place,
\* commutation of unrelated places
Algebra == (applied = <<>> /\ st = "open") =>
    \A p \in Paths(doc), v \in Values :
        LET d1 == SetAt(doc, p, v)
        IN /\ d1 # Fail
           /\ SetAt(d1, p, v) = d1
           /\ \A w \in Values : SetAt(d1, p, w) = SetAt(doc, p, w)
           /\ \A q \in Paths(doc), w \in Values :
                 ~Related(p, q) => SetAt(d1, q, w) = SetAt(SetAt(doc, q, w), p, v)
\* nothing executes unless every gate passed (the C17 clause, on the effective configuration)
NoExecUnlessAccepted == Terminal => (Result.exit = 3 => Result.seen = <<>>)
ExitCodes == Terminal => Result.exit \in {0, 3, 4}

(******************************* emission *********************************)
Case == [base |-> base, cx |-> [k \in I!Present(cx) |-> cx[k]],
         applied |-> applied, st |-> st, result |-> Result]
=============================================================================
