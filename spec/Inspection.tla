----------------------------- MODULE Inspection -----------------------------
(***************************************************************************)
(* Static inspection of a program (build_pipeline_inspection +             *)
(* validate_pipeline) as an order-sensitive abstract interpreter, and the  *)
(* two theorems of property C02 about Pipeline.tla's dynamics:             *)
(*   Sound : accepted /\ required keys supplied /\ compatible initial data *)
(*           => the run never fails on flow (build / type / resolve)       *)
(*   Exact : with the initial context = exactly the required keys, the     *)
(*           reported per-node facts equal the dynamic facts of the run    *)
(* The inspector is two-pass: Req is computed first (a key is required     *)
(* when some node needs it -- no configuration, no default -- at a point   *)
(* where it has neither been created nor deleted); origins are classified  *)
(* with the initial context = Req, so a defaulted parameter whose key is   *)
(* in Req because of a *later* node is "initial context", not "default".   *)
(***************************************************************************)
EXTENDS Pipeline

\* abstract key state while walking the program:  0 = untouched (presence decided by the
\* initial context), i > 0 = last written by node i, -1 = deleted
Untouched == 0
Deleted   == -1

\* key states *before* node i
RECURSIVE KeyStateBefore(_, _, _)
KeyStateBefore(p, i, k) ==
    IF i = 1 THEN Untouched
    ELSE LET n == p[i - 1] prev == KeyStateBefore(p, i - 1, k)
         IN IF k \in Suppressed(n) THEN Deleted          \* after Created: rename:a:a deletes
            ELSE IF k \in Created(n) THEN i - 1
            ELSE prev

Needs(n, k) == k \in ParamNames(n) /\ ~Configured(n, k)

Req(p) == {k \in Keys : \E i \in 1..Len(p) :
              Needs(p[i], k) /\ ~HasDefault(p[i], k) /\ KeyStateBefore(p, i, k) = Untouched}

\* origin of parameter k of node i: <<"config",0>>, <<"default",0>>, <<"context", j>> (j = 0: initial)
Origin(p, i, k) ==
    LET n == p[i] st == KeyStateBefore(p, i, k)
    IN IF Configured(n, k) THEN <<"config", 0>>
       ELSE IF st > 0 THEN <<"context", st>>
       ELSE IF st = Untouched /\ k \in Req(p) THEN <<"context", 0>>
       ELSE IF HasDefault(n, k) THEN <<"default", 0>>
       ELSE <<"missing", 0>>

\* data type flowing into node i ("?" = decided by the caller's initial data)
RECURSIVE TypeBefore(_, _)
TypeBefore(p, i) ==
    IF i = 1 THEN "?"
    ELSE LET n == p[i - 1] prev == TypeBefore(p, i - 1)
         IN IF OutT(n) # "same" THEN OutT(n)
            ELSE IF InT(n) # "any" THEN InT(n)       \* pass-through of a typed node
            ELSE prev

Errors(p) ==
    {<<i, "build">> : i \in {j \in 1..Len(p) : ~Constructible(p[j])}}
    \cup {<<i, "type">> : i \in {j \in 1..Len(p) :
              InT(p[j]) # "any" /\ TypeBefore(p, j) \notin {"?", InT(p[j])}}}
    \cup {<<i, "deleted">> : i \in {j \in 1..Len(p) :
              \E k \in Keys : Needs(p[j], k) /\ ~HasDefault(p[j], k) /\ KeyStateBefore(p, j, k) = Deleted}}

Accepted(p) == Errors(p) = {}

\* the initial data is compatible with the first node that has a data type
FirstTyped(p) == {i \in 1..Len(p) : InT(p[i]) # "any" /\ \A j \in 1..(i - 1) : InT(p[j]) = "any"}
DataCompatible(p, d) == \A i \in FirstTyped(p) : d.ty = InT(p[i])

Present(c) == {k \in Keys : c[k] # Absent}

(************************* dynamics with provenance ***********************)
VARIABLES writer,   \* Keys -> 0..n : who wrote the current value (0 = initial context)
          dyn       \* per completed node: dynamic facts
ivars == <<vars, writer, dyn>>

DynFacts(n, c, c2, w) ==
    [appeared    |-> {k \in Keys : c[k] = Absent /\ c2[k] # Absent},
     disappeared |-> {k \in Keys : c[k] # Absent /\ c2[k] = Absent},
     origins     |-> [k \in ParamNames(n) |->
                        IF ArgSrc(n, k, c) = "node" THEN <<"config", 0>>
                        ELSE IF ArgSrc(n, k, c) = "context" THEN <<"context", w[k]>>
                        ELSE <<ArgSrc(n, k, c), 0>>]]

IInit == Init /\ writer = [k \in Keys |-> 0] /\ dyn = <<>>

INext == \/ (Choose \/ Build) /\ UNCHANGED <<writer, dyn>>
         \/ /\ Step
            /\ IF status' = "fail" THEN UNCHANGED <<writer, dyn>>
               ELSE /\ writer' = [k \in Keys |-> IF k \in Created(prog[pc]) THEN pc ELSE writer[k]]
                    /\ dyn' = Append(dyn, DynFacts(prog[pc], ctx, ctx', writer))

ISpec == IInit /\ [][INext]_ivars

(******************************* theorems *********************************)
Sound ==
    (Terminal /\ Accepted(prog) /\ Req(prog) \subseteq Present(ictx) /\ DataCompatible(prog, idata))
        => failClass \notin {"build", "type", "resolve"}

Exact ==
    (Terminal /\ Accepted(prog) /\ Present(ictx) = Req(prog) /\ DataCompatible(prog, idata))
        => \A i \in 1..Len(dyn) :
              LET n == prog[i] f == dyn[i]
                  before == IF i = 1 THEN Present(ictx) ELSE Present(steps[i - 1].ctx)
              IN /\ f.appeared \subseteq Created(n)
                 /\ (Created(n) \ Suppressed(n)) \subseteq Present(steps[i].ctx)   \* a key both created and suppressed (rename:a:a) is unspecified
                 /\ f.disappeared = Suppressed(n) \cap before
                 /\ \A k \in ParamNames(n) : f.origins[k] = Origin(prog, i, k)

\* non-vacuity witnesses (must be *violated* in a dedicated config)
NeverAccepted == ~(Terminal /\ Accepted(prog) /\ Present(ictx) = Req(prog) /\ DataCompatible(prog, idata)
                   /\ Len(dyn) >= 2)

(****************************** emission **********************************)
\* compact: present keys only, no per-step payloads (C01 covers those)
ICase == [prog |-> prog, ictx |-> [k \in Present(ictx) |-> ictx[k]], idata |-> idata,
          status |-> status, failClass |-> failClass, failAt |-> pc, done |-> Len(dyn),
          accepted |-> Accepted(prog), req |-> Req(prog), errors |-> Errors(prog),
          dyn |-> [i \in 1..Len(dyn) |->
                     [appeared |-> dyn[i].appeared, disappeared |-> dyn[i].disappeared,
                      origins |-> dyn[i].origins]],
          rep |-> [i \in 1..Len(prog) |->
                     [created |-> Created(prog[i]), suppressed |-> Suppressed(prog[i]),
                      origins |-> [k \in ParamNames(prog[i]) |-> Origin(prog, i, k)],
                      unknown |-> UnknownParams(prog[i])]]]

\* only cases that can exercise the property are emitted: compatible data, and an initial
\* context that is the required set, or one key more, or one key less (the witnesses of an
\* under-reporting inspector)
NearReq == Cardinality((Present(ictx) \ Req(prog)) \cup (Req(prog) \ Present(ictx))) <= 1
IEmitInv == (Terminal /\ InBound /\ DataCompatible(prog, idata) /\ NearReq) => PrintT(ToJson(ICase))
=============================================================================
