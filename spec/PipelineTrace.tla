--------------------------- MODULE PipelineTrace ---------------------------
(***************************************************************************)
(* Batch trace validation for Pipeline.tla (impl -> spec).                 *)
(* IOEnv.TRACE_FILE is a JSON array of recorded executions:                *)
(*   [prog, ictx, idata, events]                                           *)
(* events (one per linearization point observed through the orchestrator   *)
(* seam):  {ev:"built"} | {ev:"buildfail"} |                               *)
(*         {ev:"ok", data, ctx, last} | {ev:"fail", at}                    *)
(* Each event must be explained by the spec action of the same name with   *)
(* the logged post-state; Accepted collects fully consumed trace ids.      *)
(***************************************************************************)
EXTENDS Pipeline, IOUtils, TLCExt

Traces == JsonDeserialize(IOEnv.TRACE_FILE)

VARIABLES tid, ix
tvars == <<vars, tid, ix>>

Events == Traces[tid].events
Ev     == Events[ix]

TInit == /\ tid \in 1..Len(Traces)
         /\ ix = 1
         /\ prog = Traces[tid].prog
         /\ ictx = Traces[tid].ictx
         /\ idata = Traces[tid].idata
         /\ pc = 0 /\ data = Traces[tid].idata /\ ctx = Traces[tid].ictx
         /\ status = "init" /\ failClass = "" /\ steps = <<>>

Consume == ix <= Len(Events) /\ ix' = ix + 1 /\ UNCHANGED tid

TBuilt     == /\ Consume /\ Ev.ev = "built"     /\ Build /\ status' = "run"
TBuildFail == /\ Consume /\ Ev.ev = "buildfail" /\ Build /\ status' = "fail"
TOk        == /\ Consume /\ Ev.ev = "ok" /\ Step /\ status' # "fail"
              /\ data' = Ev.data /\ ctx' = Ev.ctx
              /\ ((status' = "done") <=> Ev.last)
TFail      == /\ Consume /\ Ev.ev = "fail" /\ Step /\ status' = "fail" /\ pc = Ev.at

TNext == TBuilt \/ TBuildFail \/ TOk \/ TFail
TSpec == TInit /\ [][TNext]_tvars

Consumed == ix = Len(Events) + 1
Mark == Consumed => TLCSet(1, TLCGet(1) \cup {tid})
AllAccepted ==
    LET acc == TLCGet(1) rej == (1..Len(Traces)) \ acc
    IN IF rej = {} THEN TRUE ELSE PrintT(<<"REJECTED", rej>>) /\ TRUE
PrintAccepted == PrintT(<<"ACCEPTED", Cardinality(TLCGet(1)), Len(Traces)>>)
Post == AllAccepted /\ PrintAccepted
\* diagnosis of a single rejected trace: highest event index that was explained
Hi == TLCSet(2, IF ix > TLCGet(2) THEN ix ELSE TLCGet(2))
PostDiag == PrintT(<<"MATCHED", TLCGet(2) - 1>>)
ASSUME TLCSet(1, {}) /\ TLCSet(2, 0)
=============================================================================
