----------------------------- MODULE Aggregator -----------------------------
(***************************************************************************)
(* TraceAggregator: ingestion of trace records in any order and the        *)
(* completeness verdicts of finalize_run / finalize_launch.                *)
(* Records (abstract):                                                     *)
(*   [t |-> "ps", run, launch, nodes]   pipeline_start (launch = 0: none;  *)
(*                                      nodes = canonical node set)        *)
(*   [t |-> "ser", run, node, status]   SER of one node                    *)
(*   [t |-> "pe", run]                  pipeline_end                       *)
(*   [t |-> "ls", launch] / [t |-> "le", launch]   run_space_start / end   *)
(* One action per _ingest_* method; Finalize computes verdicts and must    *)
(* not change the state.                                                   *)
(***************************************************************************)
EXTENDS Integers, Sequences, FiniteSets, TLC, Json

CONSTANTS Universe      \* set of records that may be ingested (each at most once)

VARIABLES ingested,     \* history: set of records ingested so far
          sawStart, sawEnd,   \* sets of runs
          seen,         \* set of <<run, node>> with at least one SER
          lastStatus,   \* <<run, node>> -> last SER status ingested (function over seen)
          expected,     \* set of <<run, node>> announced by pipeline_start
          specKnown,    \* runs whose canonical node set is known (non-empty)
          member,       \* set of <<launch, run>>: runs attached to a launch
          lStart, lEnd, \* sets of launches
          lKnown        \* launches that have an aggregate at all
avars == <<ingested, sawStart, sawEnd, seen, lastStatus, expected, specKnown, member, lStart, lEnd, lKnown>>

Runs     == {r.run : r \in {x \in Universe : x.t \in {"ps", "ser", "pe"}}}
Launches == {r.launch : r \in {x \in Universe : x.t \in {"ls", "le"}}}
              \cup {r.launch : r \in {x \in Universe : x.t = "ps" /\ x.launch # 0}}
Terminal == {"succeeded", "error", "skipped", "cancelled"}

Init == /\ ingested = {} /\ sawStart = {} /\ sawEnd = {} /\ seen = {} /\ lastStatus = <<>>
        /\ expected = {} /\ specKnown = {} /\ member = {} /\ lStart = {} /\ lEnd = {} /\ lKnown = {}

IngestPS(r) == /\ sawStart' = sawStart \cup {r.run}
               /\ expected' = expected \cup {<<r.run, n>> : n \in r.nodes}
               /\ specKnown' = IF r.nodes # {} THEN specKnown \cup {r.run} ELSE specKnown
               /\ member' = IF r.launch # 0 THEN member \cup {<<r.launch, r.run>>} ELSE member
               /\ lKnown' = IF r.launch # 0 THEN lKnown \cup {r.launch} ELSE lKnown
               /\ UNCHANGED <<sawEnd, seen, lastStatus, lStart, lEnd>>
IngestSER(r) == /\ seen' = seen \cup {<<r.run, r.node>>}
                /\ lastStatus' = [k \in (DOMAIN lastStatus) \cup {<<r.run, r.node>>} |->
                                     IF k = <<r.run, r.node>> THEN r.status ELSE lastStatus[k]]
                /\ UNCHANGED <<sawStart, sawEnd, expected, specKnown, member, lStart, lEnd, lKnown>>
IngestPE(r) == /\ sawEnd' = sawEnd \cup {r.run}
               /\ UNCHANGED <<sawStart, seen, lastStatus, expected, specKnown, member, lStart, lEnd, lKnown>>
IngestLS(r) == /\ lStart' = lStart \cup {r.launch} /\ lKnown' = lKnown \cup {r.launch}
               /\ UNCHANGED <<sawStart, sawEnd, seen, lastStatus, expected, specKnown, member, lEnd>>
IngestLE(r) == /\ lEnd' = lEnd \cup {r.launch} /\ lKnown' = lKnown \cup {r.launch}
               /\ UNCHANGED <<sawStart, sawEnd, seen, lastStatus, expected, specKnown, member, lStart>>

Ingest(r) == /\ r \notin ingested /\ ingested' = ingested \cup {r}
             /\ CASE r.t = "ps"  -> IngestPS(r)
                  [] r.t = "ser" -> IngestSER(r)
                  [] r.t = "pe"  -> IngestPE(r)
                  [] r.t = "ls"  -> IngestLS(r)
                  [] r.t = "le"  -> IngestLE(r)

Finalize == UNCHANGED avars     \* finalize_* are pure queries: calling them never changes a later verdict

Next == (\E r \in Universe : Ingest(r)) \/ Finalize
Spec == Init /\ [][Next]_avars

(****************************** verdicts **********************************)
RunKnown(r) == r \in sawStart \cup sawEnd \cup {p[1] : p \in seen}
SeenOf(r) == {p[2] : p \in {q \in seen : q[1] = r}}
ExpOf(r)  == {p[2] : p \in {q \in expected : q[1] = r}}

RunStatus(r) == IF ~RunKnown(r) THEN "invalid"
                ELSE IF r \in sawStart /\ r \in sawEnd THEN "complete"
                ELSE IF r \notin sawStart /\ r \notin sawEnd /\ SeenOf(r) # {} THEN "invalid"
                ELSE "partial"
RunProblems(r) == IF ~RunKnown(r) THEN {"unknown_run"}
                  ELSE {p \in {"missing_pipeline_start", "missing_pipeline_end"} :
                           \/ p = "missing_pipeline_start" /\ r \notin sawStart
                           \/ p = "missing_pipeline_end" /\ r \notin sawEnd}
Missing(r) == IF r \in specKnown THEN ExpOf(r) \ SeenOf(r) ELSE {}
Orphans(r) == IF r \in specKnown THEN SeenOf(r) \ ExpOf(r) ELSE {}
NonTerminal(r) == {n \in SeenOf(r) : lastStatus[<<r, n>>] \notin Terminal}

RunVerdict(r) == [run |-> r, status |-> RunStatus(r), problems |-> RunProblems(r),
                  missing |-> Missing(r), orphans |-> Orphans(r),
                  hasStart |-> r \in sawStart, hasEnd |-> r \in sawEnd, observed |-> Cardinality(SeenOf(r))]

RunsOf(l) == {p[2] : p \in {q \in member : q[1] = l}}
CountBy(l, s) == Cardinality({r \in RunsOf(l) : RunStatus(r) = s})
LaunchStatus(l) == IF l \notin lKnown THEN "invalid"
                   ELSE IF l \notin lStart /\ RunsOf(l) # {} THEN "invalid"
                   ELSE IF l \in lStart /\ l \in lEnd
                        THEN (IF CountBy(l, "partial") + CountBy(l, "invalid") > 0 THEN "partial" ELSE "complete")
                   ELSE "partial"
LaunchProblems(l) == IF l \notin lKnown THEN {"unknown_launch"}
                     ELSE {p \in {"missing_run_space_start", "missing_run_space_end"} :
                              \/ p = "missing_run_space_start" /\ l \notin lStart
                              \/ p = "missing_run_space_end" /\ l \notin lEnd}
LaunchVerdict(l) == [launch |-> l, status |-> LaunchStatus(l), problems |-> LaunchProblems(l),
                     total |-> Cardinality(RunsOf(l)),
                     complete |-> CountBy(l, "complete"), partial |-> CountBy(l, "partial"),
                     invalid |-> CountBy(l, "invalid")]

\* runs / launches the aggregator has heard of (used by the trace spec, where there is no
\* fixed universe)
KnownRuns == sawStart \cup sawEnd \cup {p[1] : p \in seen}
KnownVerdicts == [runs |-> {RunVerdict(r) : r \in KnownRuns}, launches |-> {LaunchVerdict(l) : l \in lKnown}]

(****************************** properties ********************************)
\* the state (hence every verdict) is a function of the SET of ingested records
Of(t) == {r \in ingested : r.t = t}
StateIsFoldOfSet ==
    /\ sawStart = {r.run : r \in Of("ps")}
    /\ sawEnd = {r.run : r \in Of("pe")}
    /\ seen = {<<r.run, r.node>> : r \in Of("ser")}
    /\ expected = UNION {{<<r.run, n>> : n \in r.nodes} : r \in Of("ps")}
    /\ member = {<<r.launch, r.run>> : r \in {x \in Of("ps") : x.launch # 0}}
    /\ lStart = {r.launch : r \in Of("ls")} /\ lEnd = {r.launch : r \in Of("le")}

\* documented verdicts on what the runtime can have produced (producer-legal sets): a run's
\* records appear in stream order, so SERs imply the start, the end implies every started SER
ProducerLegal ==
    \A r \in Runs :
        /\ (SeenOf(r) # {} \/ r \in sawEnd) => r \in sawStart
PrefixVerdict ==
    ProducerLegal =>
      \A r \in Runs : RunKnown(r) =>
        /\ (RunStatus(r) = "complete") <=> (r \in sawStart /\ r \in sawEnd)
        /\ RunStatus(r) # "complete" => RunStatus(r) = "partial" /\ RunProblems(r) = {"missing_pipeline_end"}
        /\ Orphans(r) = {}
        /\ Missing(r) = ExpOf(r) \ SeenOf(r)
LaunchRollup ==
    \A l \in lKnown : CountBy(l, "complete") + CountBy(l, "partial") + CountBy(l, "invalid") = Cardinality(RunsOf(l))

(****************************** emission **********************************)
\* the oracle table: one line per reachable subset of the universe
VerdictOf == [ingested |-> ingested,
              runs |-> {RunVerdict(r) : r \in Runs},
              launches |-> {LaunchVerdict(l) : l \in Launches}]
EmitInv == PrintT(ToJson(VerdictOf))
=============================================================================
