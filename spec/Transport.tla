------------------------------ MODULE Transport ------------------------------
(***************************************************************************)
(* Abstract in-memory pub/sub transport: per-channel FIFO queues.          *)
(*   Publish(ch, m)       linearizes at q.append(msg) under the channel    *)
(*                        lock                                             *)
(*   Deliver(ch, m, pat)  linearizes at q.popleft() under the channel lock;*)
(*                        only to a subscription whose pattern matches     *)
(* TransportImpl.tla is the line-level model that must implement this.     *)
(***************************************************************************)
EXTENDS Integers, Sequences, FiniteSets, TLC

CONSTANTS Channels, Msgs, Patterns
VARIABLES queues,      \* channel -> sequence of messages
          published,   \* set of <<ch, m>> ever published
          delivered    \* sequence of <<ch, m, pat>>
tvars == <<queues, published, delivered>>

\* fnmatch patterns used by the harness: exact name, "*", and the prefix pattern "c.*"
\* ... and "c.*.x", whose prefix "c." and suffix ".x" overlap on the channel "c.x" (which it does NOT match)
\* fnmatch over the channel alphabet of the scenarios: "*" any run of characters, "?" exactly one, "[ab]" one of the listed
Matches(ch, pat) == \/ pat = "*" \/ pat = ch
                    \/ (pat = "c.*" /\ ch \in {"c.x", "c.y", "c.q.x"}) \/ (pat = "c.*.x" /\ ch = "c.q.x")
                    \/ (pat = "c.?" /\ ch \in {"c.x", "c.y"}) \/ (pat = "[ab]" /\ ch \in {"a", "b"})

Init == queues = [c \in Channels |-> <<>>] /\ published = {} /\ delivered = <<>>

Publish(ch, m) == /\ <<ch, m>> \notin published
                  /\ queues' = [queues EXCEPT ![ch] = Append(@, m)]
                  /\ published' = published \cup {<<ch, m>>}
                  /\ UNCHANGED delivered
Deliver(ch, pat) == /\ queues[ch] # <<>> /\ Matches(ch, pat)
                    /\ delivered' = Append(delivered, <<ch, Head(queues[ch]), pat>>)
                    /\ queues' = [queues EXCEPT ![ch] = Tail(@)]
                    /\ UNCHANGED published
Next == \/ \E ch \in Channels, m \in Msgs : Publish(ch, m)
        \/ \E ch \in Channels, pat \in Patterns : Deliver(ch, pat)
Spec == Init /\ [][Next]_tvars

DeliveredSet == {<<delivered[i][1], delivered[i][2]>> : i \in 1..Len(delivered)}
InQueues == UNION {{<<c, queues[c][i]>> : i \in 1..Len(queues[c])} : c \in Channels}
\* exactly once: every published message is either still queued or delivered, never both, never twice
Conservation == /\ DeliveredSet \cup InQueues = published
                /\ DeliveredSet \cap InQueues = {}
                /\ Cardinality(DeliveredSet) = Len(delivered)
MatchOnly == \A i \in 1..Len(delivered) : Matches(delivered[i][1], delivered[i][3])
ChannelFifo == \A c \in Channels : \A i, j \in 1..Len(delivered) :
                  (i < j /\ delivered[i][1] = c /\ delivered[j][1] = c) => delivered[i][2] < delivered[j][2]
=============================================================================
