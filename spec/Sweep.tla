------------------------------- MODULE Sweep -------------------------------
(***************************************************************************)
(* derive.parameter_sweep: materialisation of the variable sequences, the  *)
(* enumeration of sweep steps, the merge of call parameters and the        *)
(* publication of <var>_values.                                            *)
(* A sweep specification:                                                  *)
(*   [kind, vars, mode, bc, expr, bplace]                                  *)
(*   kind  \in {"src","op","probe"}  wrapped element (two parameters:      *)
(*          a required, b = 1 by default; result 10*a + b (+ data))        *)
(*   vars  : function  name -> domain;  a domain is                        *)
(*          [t |-> "seq", vals], [t |-> "lin"|"log", lo, hi, steps, endp]  *)
(*          or [t |-> "ctx", key]                                          *)
(*   mode  \in {"comb","bp"}   bc: broadcast                               *)
(*   expr  the expression computing parameter a from the variables         *)
(*   bplace \in {"config","context","default"}: where b comes from         *)
(* The step enumeration is given twice: operationally (an odometer, one    *)
(* Step action per sweep step, as itertools.product / the position loop    *)
(* do) and as a closed form; StepsAreClosedForm states they agree.         *)
(***************************************************************************)
EXTENDS Integers, Sequences, FiniteSets, TLC, Json

CONSTANTS Specs, CtxList       \* CtxList: the sequence stored under the from_context key (<<>> = key absent)

VARIABLES sp, phase, seqs, k, out, err
vars == <<sp, phase, seqs, k, out, err>>

NameOrder == <<"t", "u", "v">>
NIdx(n) == CHOOSE i \in 1..Len(NameOrder) : NameOrder[i] = n
SortedNames(S) == LET f[n \in 0..Len(NameOrder)] == IF n = 0 THEN <<>>
                          ELSE IF NameOrder[n] \in S THEN Append(f[n - 1], NameOrder[n]) ELSE f[n - 1]
                  IN f[Len(NameOrder)]

RECURSIVE Pow10(_)
Pow10(n) == IF n = 0 THEN 1 ELSE 10 * Pow10(n - 1)
\* decades only: lo = 10^p, hi = 10^q
RECURSIVE Log10(_)
Log10(x) == IF x = 1 THEN 0 ELSE 1 + Log10(x \div 10)

Materialise(d) ==
    CASE d.t = "seq" -> d.vals
      [] d.t = "lin" -> LET n == d.steps
                            den == IF d.endp THEN n - 1 ELSE n
                        IN [i \in 1..n |-> d.lo + ((d.hi - d.lo) * (i - 1)) \div (IF den = 0 THEN 1 ELSE den)]
      [] d.t = "log" -> LET n == d.steps
                            den == IF d.endp THEN n - 1 ELSE n
                            span == Log10(d.hi) - Log10(d.lo)
                        IN [i \in 1..n |-> Pow10(Log10(d.lo) + (span * (i - 1)) \div (IF den = 0 THEN 1 ELSE den))]
      [] d.t = "ctx" -> CtxList

Names == DOMAIN sp.vars
MaxLenOf(s) == LET L == {Len(s[n]) : n \in DOMAIN s} IN CHOOSE m \in L : \A x \in L : x <= m
RECURSIVE Prod(_, _)
Prod(s, S) == IF S = {} THEN 1 ELSE LET n == CHOOSE n \in S : TRUE IN Len(s[n]) * Prod(s, S \ {n})

StepCount(s) == IF sp.mode = "comb" THEN Prod(s, DOMAIN s)
                ELSE IF sp.bc THEN MaxLenOf(s)
                ELSE Len(s[CHOOSE n \in DOMAIN s : TRUE])
LengthsOK(s) == sp.mode = "comb" \/ sp.bc \/ Cardinality({Len(s[n]) : n \in DOMAIN s}) = 1

\* closed form: the assignment of step j (0-based)
Later(ns, q) == {ns[i] : i \in (q + 1)..Len(ns)}
Assign(s, j) ==
    LET ns == SortedNames(DOMAIN s) IN
    [n \in DOMAIN s |->
        IF sp.mode = "comb"
        THEN LET q == CHOOSE q \in 1..Len(ns) : ns[q] = n
             IN s[n][((j \div Prod(s, Later(ns, q))) % Len(s[n])) + 1]       \* sorted names, rightmost fastest
        ELSE s[n][(j % Len(s[n])) + 1]]                                      \* aligned; broadcast cycles

\* "+" is NOT commutative on strings: str(int(t)) + str(int(u)) concatenates decimal numerals
\* (the element turns the numeral back into a number); values are small non-negative integers here
Digits(y) == IF y < 10 THEN 1 ELSE IF y < 100 THEN 2 ELSE IF y < 1000 THEN 3 ELSE 4
Concat(x, y) == x * Pow10(Digits(y)) + y
EvalExpr(e, asg) == CASE e = "t" -> asg["t"]
                      [] e = "cat" -> Concat(asg["t"], asg["u"])
                      [] e = "tac" -> Concat(asg["u"], asg["t"])
                      [] e = "2*t" -> 2 * asg["t"]
                      [] e = "t+u" -> asg["t"] + asg["u"]
                      [] e = "t*u" -> asg["t"] * asg["u"]
                      [] e = "u-t" -> asg["u"] - asg["t"]
                      [] e = "t+u+v" -> asg["t"] + asg["u"] + asg["v"]
                      [] e = "t*u-v" -> asg["t"] * asg["u"] - asg["v"]
BVal == CASE sp.bplace = "config" -> 5 [] sp.bplace = "context" -> 7 [] OTHER -> 1
\* computed-by-expression > node parameters > defaults
Element(asg) == 10 * EvalExpr(sp.expr, asg) + BVal + (IF sp.kind = "src" THEN 0 ELSE 1000)

Init == sp \in Specs /\ phase = "materialise" /\ seqs = <<>> /\ k = 0 /\ out = <<>> /\ err = ""

DoMaterialise ==
    /\ phase = "materialise"
    /\ IF \E n \in Names : sp.vars[n].t = "ctx" /\ CtxList = <<>>
       THEN err' = "missing_context_sequence" /\ phase' = "failed" /\ UNCHANGED <<sp, seqs, k, out>>
       ELSE LET s == [n \in Names |-> Materialise(sp.vars[n])]
            IN /\ seqs' = s
               /\ IF LengthsOK(s) THEN phase' = "steps" /\ err' = ""
                  ELSE phase' = "failed" /\ err' = "unequal_lengths"
               /\ UNCHANGED <<sp, k, out>>
\* one sweep step: the odometer position k is decoded operationally (digit by digit)
RECURSIVE Odometer(_, _, _)
Odometer(s, ns, j) ==     \* ns: sorted names still to decode (last = fastest)
    IF ns = <<>> THEN <<>>
    ELSE LET n == ns[Len(ns)] rest == SubSeq(ns, 1, Len(ns) - 1)
         IN Odometer(s, rest, j \div Len(s[n])) @@ (n :> s[n][(j % Len(s[n])) + 1])
StepAssign == IF sp.mode = "comb" THEN Odometer(seqs, SortedNames(Names), k)
              ELSE [n \in Names |-> seqs[n][(k % Len(seqs[n])) + 1]]
Step == /\ phase = "steps" /\ k < StepCount(seqs)
        /\ out' = Append(out, Element(StepAssign)) /\ k' = k + 1
        /\ UNCHANGED <<sp, phase, seqs, err>>
Publish == /\ phase = "steps" /\ k = StepCount(seqs)
           /\ phase' = "done" /\ UNCHANGED <<sp, seqs, k, out, err>>
Next == DoMaterialise \/ Step \/ Publish
Spec == Init /\ [][Next]_vars

Terminal == phase \in {"done", "failed"}
StepsAreClosedForm == phase = "steps" /\ k < StepCount(seqs) => StepAssign = Assign(seqs, k)
CountIsClosedForm == phase = "done" => Len(out) = StepCount(seqs) /\ \A j \in 1..Len(out) : out[j] = Element(Assign(seqs, j - 1))
BroadcastCycles == phase = "done" /\ sp.mode = "bp" /\ sp.bc =>
                      \A n \in Names : \A j \in 0..(Len(out) - 1) : Assign(seqs, j)[n] = seqs[n][(j % Len(seqs[n])) + 1]
PublishedAll == phase = "done" => DOMAIN seqs = Names

Case == [sp |-> sp, ctxlist |-> CtxList, outcome |-> IF phase = "done" THEN "ok" ELSE err,
         out |-> out, published |-> IF phase = "done" THEN seqs ELSE <<>>]
EmitInv == Terminal => PrintT(ToJson(Case))
=============================================================================
