--------------------------- MODULE AggregatorTrace ---------------------------
(***************************************************************************)
(* Batch validation of recorded aggregator histories (impl -> spec).       *)
(* A trace is a sequence of events, each one ingest of a record produced   *)
(* by the runtime (abstracted) followed by finalize_all(): the logged      *)
(* verdicts must be the spec's verdicts of the ingested set.               *)
(***************************************************************************)
EXTENDS Aggregator, IOUtils, TLCExt

Traces == JsonDeserialize(IOEnv.TRACE_FILE)
VARIABLES tid, ix
trvars == <<avars, tid, ix>>
Ev == Traces[tid][ix]
ToSet(s) == {s[i] : i \in DOMAIN s}
Rec(j) == [t |-> j.t, run |-> j.run, launch |-> j.launch, nodes |-> ToSet(j.nodes), node |-> j.node, status |-> j.status]
RV(j) == [run |-> j.run, status |-> j.status, problems |-> ToSet(j.problems), missing |-> ToSet(j.missing),
          orphans |-> ToSet(j.orphans), hasStart |-> j.hasStart, hasEnd |-> j.hasEnd, observed |-> j.observed]
LV(j) == [launch |-> j.launch, status |-> j.status, problems |-> ToSet(j.problems), total |-> j.total,
          complete |-> j.complete, partial |-> j.partial, invalid |-> j.invalid]

TrInit == Init /\ tid \in 1..Len(Traces) /\ ix = 1
TrIngest == /\ ix <= Len(Traces[tid]) /\ ix' = ix + 1 /\ UNCHANGED tid
            /\ Ingest(Rec(Ev.rec))
            /\ KnownVerdicts' = [runs |-> {RV(j) : j \in ToSet(Ev.runs)}, launches |-> {LV(j) : j \in ToSet(Ev.launches)}]
TrSpec == TrInit /\ [][TrIngest]_trvars

Mark == (ix = Len(Traces[tid]) + 1) => TLCSet(1, TLCGet(1) \cup {tid})
Hi == TLCSet(2, IF ix > TLCGet(2) THEN ix ELSE TLCGet(2))
Post == /\ PrintT(<<"ACCEPTED", Cardinality(TLCGet(1)), Len(Traces)>>)
        /\ LET rej == (1..Len(Traces)) \ TLCGet(1) IN IF rej = {} THEN TRUE ELSE PrintT(<<"REJECTED", rej>>)
PostDiag == PrintT(<<"MATCHED", TLCGet(2) - 1>>)
ASSUME TLCSet(1, {}) /\ TLCSet(2, 0)
=============================================================================
