----------------------------- MODULE Instances -----------------------------
(* Node sets and initial payloads shared by the model-checking instances of     *)
(* Pipeline.tla, Inspection.tla, TraceStream.tla, ...                           *)
EXTENDS Library

\* distinct numbers per origin so that provenance is observable in the result
CtxVal(k) == CASE k = "value" -> 5 [] k = "factor" -> 3 [] k = "addend" -> 7
               [] k = "a" -> 11 [] k = "b" -> 13 [] k = "w" -> 17 [] OTHER -> 19
FreeKeys == {"value", "factor", "addend", "a", "b", "w"}

\* falsy values: a context entry 0 must still override a default
ZeroCtx == [k \in Keys |-> IF k \in {"value", "factor", "addend"} THEN Num(0) ELSE Absent]
\* keys present with value None: presence wins over a default, the value None is what is passed
NullCtx == [k \in Keys |-> IF k \in {"factor", "a"} THEN Null ELSE IF k = "value" THEN Num(5) ELSE Absent]
AllInitCtxs == {[k \in Keys |-> IF k \in S THEN Num(CtxVal(k)) ELSE Absent] : S \in SUBSET FreeKeys} \cup {ZeroCtx}
SmallInitCtxs == {[k \in Keys |-> IF k \in S THEN Num(CtxVal(k)) ELSE Absent] :
                     S \in {{}, {"factor"}, {"a"}, {"value", "addend"}, {"factor", "a", "b"}, FreeKeys}} \cup {ZeroCtx}
\* with a None-valued context (execution-level modules only: static inspection reasons about keys,
\* and "rename/delete of a key holding None is a no-op" is left outside C02)
\* list-valued context entries: a short list, an empty one, and a LONG one (400 numbers: anything that is summarised,
\* truncated or sampled by length shows here)
LongList == [i \in 1..400 |-> i]
ListCtxsL == {[k \in Keys |-> IF k = "a" THEN List(<<2, 3>>) ELSE IF k = "factor" THEN Num(3) ELSE Absent],
              [k \in Keys |-> IF k = "a" THEN List(<<>>) ELSE Absent]}
LongListCtx == [k \in Keys |-> IF k = "a" THEN List(LongList) ELSE IF k = "value" THEN Num(5) ELSE Absent]
AllInitCtxsN == AllInitCtxs \cup {NullCtx} \cup ListCtxsL
SmallInitCtxsN == SmallInitCtxs \cup {NullCtx} \cup ListCtxsL
AllInitCtxsNL == AllInitCtxsN \cup {LongListCtx}       \* single-node programs only (TraceStream.full1)
ListCtxs == {[k \in Keys |-> IF k = "a" THEN List(<<2, 3>>) ELSE IF k = "factor" THEN Num(3) ELSE Absent],
             [k \in Keys |-> IF k = "a" THEN List(<<>>) ELSE Absent]}

BothDatas == {NoData, Float(1)}
AllDatas  == {NoData, Float(1), Coll(<<2, 3>>), Coll(<<>>)}

FullNodes ==
  { N0("Src"), NC("Src", "value", 6), N0("SrcDef"), NC("SrcDef", "value", 6), N0("Src0"),
    N0("Mul"), NC("Mul", "factor", 4), N0("MulDef"), NC("MulDef", "factor", 4),
    N0("Add"), NC("Add", "addend", 8), N0("Sq"),
    NK("Probe", "factor", ""), NK("Probe", "a", ""), NK("Probe", "value", ""), NK("Probe", "", ""),
    NK("Rename", "a", "b"), NK("Rename", "factor", "addend"), NK("Rename", "a", "a"),
    NK("Delete", "a", ""), NK("Delete", "factor", ""),
    NK("Template", "a", "b"), NK("Template", "factor", "a"),
    N0("SliceMul"), NC("SliceMul", "factor", 4), N0("SliceMulDef"),
    NK("SliceProbe", "a", ""), NK("SliceProbe", "factor", ""), N0("Sum"),
    N0("Sink"), N0("CtxW"), N0("CtxWBad"), N0("Boom"), N0("Abort"),
    NS("SweepSrc", <<1, 2>>), NS("SweepMul", <<2, 3>>), NK("SweepSrcCtx", "a", ""),
    NS("SweepSrc", <<3>>), NS("SweepMul", <<4>>),       \* a second sweep of each kind (same generated class name)
    WithBogus(NC("Mul", "factor", 4)), WithBogus(N0("Sq")), WithBogus(NK("Rename", "a", "b")),
    N0("PSrc"), N0("PSrcInj"), N0("PSink"), N0("Touch"), NK("ProbeP", "a", ""),
    NC("CtxWP", "factor", 4), NS("SweepCtxW", <<2, 3>>), N0("SliceCtxW"),
    NC("Mul", "factor", NullCfg), NC("MulDef", "factor", NullCfg), N0("IncIP"),
    NK("CtxBind", "", "b"), NK("CtxBind", "", "w"),                          \* context-key-bound context processor
    Node("Rename", [x \in {"a"} |-> 5], "a", "b", <<>>), Node("Delete", [x \in {"a"} |-> 5], "a", "", <<>>),   \* key given in the node configuration           \* parameter configured as null     \* context-writing element: plain, swept, sliced
    Node("ProbeP", [x \in {"factor"} |-> 4], "factor", "", <<>>),
    N0("MulKw"), NC("MulKw", "factor", 4), N0("MulKwReq"),
    NK("FitM", "", "b"), NK("FitM", "", "") }                                \* variable-mapped model fitting (bound / default output key)                   \* keyword-only parameters

\* focus sets: fewer instances, longer programs
FeedNodes ==   \* parameter feeding
  { NC("Src", "value", 6), N0("MulDef"), N0("Mul"), N0("Add"), NK("Probe", "factor", ""), N0("IncIP"), N0("MulKw"),
    NK("Rename", "factor", "addend"), NK("Delete", "factor", ""), N0("Sq") }
SliceNodes ==  \* slicers and sweeps
  { NS("SweepSrc", <<1, 2>>), N0("SliceMulDef"), N0("SliceMul"), NK("SliceProbe", "factor", ""),
    NK("SliceProbe", "a", ""), N0("Sum"), N0("MulDef"), NK("SweepSrcCtx", "a", ""), NS("SweepMul", <<2, 3>>),
    NS("SweepCtxW", <<2, 3>>), N0("SliceCtxW"), NK("FitM", "", "factor") }
CtxNodes ==    \* context processors
  { N0("Src0"), NK("Rename", "a", "b"), NK("Rename", "b", "a"), NK("Delete", "a", ""),
    NK("Template", "a", "b"), NK("Probe", "a", ""), N0("CtxW"), NK("Rename", "w", "a"), NK("CtxBind", "", "b"),
    Node("Rename", [x \in {"a"} |-> 5], "a", "b", <<>>), Node("Delete", [x \in {"a"} |-> 5], "a", "", <<>>) }
KeyNodes ==    \* key names that generated class names fold together (rename:a.b:w vs rename:a_b:w, delete, probes)
  { N0("Src0"), NK("Probe", "a.b", ""), NK("Probe", "a_b", ""), NK("Rename", "a.b", "w"), NK("Rename", "a_b", "w"),
    NK("Delete", "a.b", ""), NK("Delete", "a_b", ""), NK("Rename", "a.b", "a_b"), NK("Rename", "w", "a.b") }
FailNodes ==   \* failures
  { N0("Src0"), N0("CtxWBad"), N0("Boom"), N0("Abort"), N0("Mul"), N0("Src"), N0("Sink"), N0("Sum"),
    NK("Probe", "", ""), WithBogus(N0("Sq")), N0("Sq") }
=============================================================================
