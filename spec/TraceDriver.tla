----------------------------- MODULE TraceDriver -----------------------------
(***************************************************************************)
(* JsonlTraceDriver as a state machine over a small file system: where     *)
(* each record goes, which handles are open, what close() does -- one       *)
(* action per driver method.  The driver is given ONE output path; what     *)
(* that path is decides between the two modes:                              *)
(*   single-file mode   the path has a suffix and is not an existing        *)
(*                      directory: every record is appended to that file    *)
(*   directory mode     otherwise: one "<stamp>_<run>.ser.jsonl" per run,   *)
(*                      launch records in "<stamp>_runspace-<launch>..."    *)
(* Named behaviours of the code:                                            *)
(*   ExistingDirectoryWins   _open_file asks is_dir() before looking at the *)
(*                           suffix: an existing directory "traces.v2" is a *)
(*                           directory ...                                  *)
(*   LaunchFileBySuffixOnly  ... but _open_run_space_file looks at the      *)
(*                           suffix only: for such a directory the launch   *)
(*                           records go through _open_file and land in a    *)
(*                           "<stamp>_<launch>.ser.jsonl" file inside it    *)
(*   StampAtOpen             file names carry the clock's second at the     *)
(*                           moment the file is OPENED; close() forgets the *)
(*                           launch file, so a launch record written after  *)
(*                           a close() and a clock tick opens a NEW launch  *)
(*                           file                                           *)
(*   CloseClosesBoth         close() closes the run's file and the launch   *)
(*                           file (the orchestrator calls it after every    *)
(*                           run)                                           *)
(*   EndWithoutFileIsSilent  on_pipeline_end with no open file writes       *)
(*                           nothing                                        *)
(***************************************************************************)
EXTENDS Integers, Sequences, FiniteSets, TLC, Json

CONSTANTS PathKind,     \* "file" | "dir" | "dotted-dir-existing" | "dotted-new"
          Runs,         \* run ids
          Launches,     \* launch ids
          MaxOps        \* length of the explored call sequences

SingleFile == PathKind \in {"file", "dotted-new"}       \* a path with a suffix that is not an existing directory
SuffixOnly == PathKind \in {"file", "dotted-new", "dotted-dir-existing"}

VARIABLES fs,        \* file name -> sequence of records written to it
          mainH,     \* name of the file the run handle is open on, or ""
          rsH,       \* name of the file the launch handle is open on, or ""
          clock,     \* the second shown in file names
          seq,       \* the driver's sequence counter (lifecycle records only)
          ops        \* history: the calls made so far
vars == <<fs, mainH, rsH, clock, seq, ops>>

TheFile == "F"                                                    \* the single file
RunFile(t, r) == "run:" \o ToString(t) \o ":" \o r                \* "<t>_<r>.ser.jsonl"
LaunchFile(t, l) == "launch:" \o ToString(t) \o ":" \o l          \* "<t>_runspace-<l>.trace.jsonl"
IsLaunchFile(f) == \E t \in 1..3, l \in Launches : f = LaunchFile(t, l)

Write(f, rec) == [g \in (DOMAIN fs) \cup {f} |-> IF g = f THEN (IF f \in DOMAIN fs THEN Append(fs[f], rec) ELSE <<rec>>) ELSE fs[g]]
Touch(f) == [g \in (DOMAIN fs) \cup {f} |-> IF g \in DOMAIN fs THEN fs[g] ELSE <<>>]        \* open(..., "a") creates the file

\* _open_file(id): the file a run handle would be opened on
MainTarget(id) == IF SingleFile THEN TheFile ELSE RunFile(clock, id)

Init == fs = <<>> /\ mainH = "" /\ rsH = "" /\ clock = 1 /\ seq = 0 /\ ops = <<>>

Log(op) == ops' = Append(ops, op)

PipelineStart(r) ==
    LET h == IF mainH # "" THEN mainH ELSE MainTarget(r)
    IN /\ mainH' = h /\ seq' = seq + 1
       /\ fs' = Write(h, [t |-> "ps", id |-> r, seq |-> seq + 1])
       /\ UNCHANGED <<rsH, clock>> /\ Log(<<"ps", r>>)
NodeEvent(r) ==
    /\ mainH # ""                                    \* (the orchestrator never calls it otherwise: the code asserts)
    /\ fs' = Write(mainH, [t |-> "ser", id |-> r, seq |-> 0])
    /\ UNCHANGED <<mainH, rsH, clock, seq>> /\ Log(<<"ser", r>>)
PipelineEnd(r) ==
    /\ IF mainH = "" THEN UNCHANGED <<fs, seq>>      \* EndWithoutFileIsSilent
       ELSE fs' = Write(mainH, [t |-> "pe", id |-> r, seq |-> seq + 1]) /\ seq' = seq + 1
    /\ UNCHANGED <<mainH, rsH, clock>> /\ Log(<<"pe", r>>)
\* _open_run_space_file(l): which file the launch handle ends up on (and what happens to the run handle on the way)
LaunchRecord(kind, l) ==
    LET viaMain == SuffixOnly                         \* LaunchFileBySuffixOnly
        m2 == IF rsH # "" \/ ~viaMain THEN mainH ELSE (IF mainH # "" THEN mainH ELSE MainTarget(l))
        h == IF rsH # "" THEN rsH ELSE IF viaMain THEN m2 ELSE LaunchFile(clock, l)
    IN /\ rsH' = h /\ mainH' = m2 /\ seq' = seq + 1
       /\ fs' = Write(h, [t |-> kind, id |-> l, seq |-> seq + 1])
       /\ UNCHANGED clock /\ Log(<<kind, l>>)
Close == /\ mainH' = "" /\ rsH' = "" /\ UNCHANGED <<fs, clock, seq>> /\ Log(<<"close", 0>>)      \* CloseClosesBoth
Tick == /\ clock' = clock + 1 /\ UNCHANGED <<fs, mainH, rsH, seq>> /\ Log(<<"tick", 0>>)

Next == /\ Len(ops) < MaxOps
        /\ \/ \E r \in Runs : PipelineStart(r) \/ NodeEvent(r) \/ PipelineEnd(r)
           \/ \E l \in Launches : LaunchRecord("ls", l) \/ LaunchRecord("le", l)
           \/ Close \/ (clock < 3 /\ Tick)
Spec == Init /\ [][Next]_vars

(******************************* properties *******************************)
IsPrefixOf(a, b) == Len(a) <= Len(b) /\ SubSeq(b, 1, Len(a)) = a
\* nothing is ever truncated or rewritten: every file only grows at its end
AppendOnly == [][\A f \in DOMAIN fs : f \in DOMAIN fs' /\ IsPrefixOf(fs[f], fs'[f])]_vars
\* single-file mode: exactly one file, and it holds every record in call order
OneFile == SingleFile => DOMAIN fs \subseteq {TheFile}
\* lifecycle records carry strictly increasing sequence numbers along every file, across runs and re-opens
SeqIncreasing == \A f \in DOMAIN fs : \A i, j \in 1..Len(fs[f]) :
                    (i < j /\ fs[f][i].seq > 0 /\ fs[f][j].seq > 0) => fs[f][i].seq < fs[f][j].seq
\* directory mode with a suffix-less path: launch records never land in a run's file, run records never in a launch file
Separated == (PathKind = "dir") =>
                \A f \in DOMAIN fs : \A i \in 1..Len(fs[f]) :
                    IsLaunchFile(f) <=> (fs[f][i].t \in {"ls", "le"})
\* handles point at existing files; after close() nothing is open
HandlesExist == (mainH # "" => mainH \in DOMAIN fs) /\ (rsH # "" => rsH \in DOMAIN fs)
ClosedAfterClose == (ops # <<>> /\ ops[Len(ops)][1] = "close") => (mainH = "" /\ rsH = "")
\* one run's records written between its start and the next close() are in ONE file
RunInOneFile == \A f, g \in DOMAIN fs : \A i \in 1..Len(fs[f]), j \in 1..Len(fs[g]) :
                   (fs[f][i].t = "ps" /\ fs[g][j].t = "ser" /\ fs[f][i].id = fs[g][j].id /\ f # g) =>
                       \E k \in 1..Len(ops) : ops[k][1] = "close"        \* only a close() in between can separate them

Case == [kind |-> PathKind, ops |-> ops, fs |-> [f \in DOMAIN fs |-> [i \in 1..Len(fs[f]) |-> <<fs[f][i].t, fs[f][i].id, fs[f][i].seq>>]],
         files |-> DOMAIN fs, mainH |-> mainH, rsH |-> rsH]
EmitInv == (Len(ops) = MaxOps) => PrintT(ToJson(Case))
=============================================================================
