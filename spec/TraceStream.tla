----------------------------- MODULE TraceStream -----------------------------
(***************************************************************************)
(* The traced execution lifecycle: SemantivaOrchestrator.execute with a    *)
(* JsonlTraceDriver attached.  One action per critical section:            *)
(*   TStart   compute ids, trace.on_pipeline_start  (file opened)          *)
(*   TBuild   _instantiate_nodes  (ok | construction failure)              *)
(*   TStep    one node: pre-state snapshot, node.process, SER emitted with *)
(*            status succeeded | error                                     *)
(*   TEnd     trace.on_pipeline_end(ok | error)                            *)
(*   TClose   finally: flush + close, then return / re-raise               *)
(* The trace variables (out, open, phase, result) are history variables on *)
(* top of Pipeline.tla: PROPERTY Untraced states that the payload-level    *)
(* behaviour is exactly Pipeline's (tracing is observational, C10).        *)
(* Every path out of "started" goes through TEnd and TClose -- this is     *)
(* what C06 demands, whatever fails (construction, type gate, resolution,  *)
(* processor error, undeclared write, BaseException abort).                *)
(* SER content (C07) is defined from the step's pre/post state.            *)
(***************************************************************************)
EXTENDS Pipeline

VARIABLES phase,    \* "idle","started","running","failing","finishing","ended","closed"
          out,      \* emitted records
          open,     \* trace file handle open?
          result    \* "none","returned","raised"
tvars == <<vars, phase, out, open, result>>

RStart == [t |-> "start"]
REnd(s) == [t |-> "end", status |-> s]

\* ---- SER facts of one node execution (pre: d, c; post: d2, c2; r = NodeOutcome) ----
NeedKeys(n) == {p \in ParamNames(n) : ~Configured(n, p) /\ ~HasDefault(n, p)}

SerOf(i, n, d, c, r) ==
    LET ok == r.st = "ok"
        c2 == r.ctx        \* also for a failing node: what it wrote before failing is there (a rename writes its
                           \* destination before it fails to remove a source that is not in the context)
        d2 == IF ok THEN r.data ELSE d
        resolved == r.st \notin {"type", "resolve"}
    IN [t |-> "ser", node |-> i, status |-> IF ok THEN "succeeded" ELSE "error",
        kind |-> n.kind,
        created |-> {k \in Keys : c[k] = Absent /\ c2[k] # Absent},
        updated |-> {k \in Keys : c[k] # Absent /\ c2[k] # Absent /\ c2[k] # c[k]},
        resolved |-> resolved,
        params |-> IF resolved
                   THEN [p \in ParamNames(n) |-> [src |-> ArgSrc(n, p, c), val |-> ArgVal(n, p, c)]]
                   ELSE <<>>,
        need |-> NeedKeys(n),
        missing |-> {p \in NeedKeys(n) : c[p] = Absent},
        inTypeOk |-> (InT(n) = "any" \/ d.ty = InT(n)),
        outTypeOk |-> (OutT(n) = "same" \/ d2.ty = OutT(n)),
        pre |-> [data |-> d, ctx |-> c], post |-> [data |-> d2, ctx |-> c2]]

TInit == Init /\ phase = "idle" /\ out = <<>> /\ open = FALSE /\ result = "none"

TChoose == phase = "idle" /\ Choose /\ UNCHANGED <<phase, out, open, result>>

TStart == /\ phase = "idle" /\ status = "init" /\ Len(prog) >= 1
          /\ out' = <<RStart>> /\ open' = TRUE /\ phase' = "started"
          /\ UNCHANGED <<vars, result>>

TBuild == /\ phase = "started" /\ Build
          /\ phase' = IF status' = "fail" THEN "failing" ELSE "running"
          /\ UNCHANGED <<out, open, result>>

TStep == /\ phase = "running" /\ Step
         /\ out' = Append(out, SerOf(pc, prog[pc], data, ctx, NodeOutcome(prog[pc], data, ctx)))
         /\ phase' = IF status' = "fail" THEN "failing" ELSE IF status' = "done" THEN "finishing" ELSE "running"
         /\ UNCHANGED <<open, result>>

TEnd == /\ phase \in {"failing", "finishing"}
        /\ out' = Append(out, REnd(IF phase = "finishing" THEN "ok" ELSE "error"))
        /\ phase' = "ended"
        /\ UNCHANGED <<vars, open, result>>

TClose == /\ phase = "ended"
          /\ open' = FALSE /\ phase' = "closed"
          /\ result' = IF status = "done" THEN "returned" ELSE "raised"
          /\ UNCHANGED <<vars, out>>

TNext == TChoose \/ TStart \/ TBuild \/ TStep \/ TEnd \/ TClose
TSpec == TInit /\ [][TNext]_tvars /\ WF_tvars(TStart \/ TBuild \/ TStep \/ TEnd \/ TClose)

Closed == phase = "closed"

(***************************** C06 properties ****************************)
Sers == SelectSeq(out, LAMBDA r : r.t = "ser")

Bracket == out # <<>> =>
              /\ out[1].t = "start"
              /\ \A j \in 2..Len(out) : out[j].t \in {"ser", "end"}

\* ser records carry node indices 1,2,..,m without gaps; all succeeded except possibly the last
SerOrder == /\ \A j \in 1..Len(Sers) : Sers[j].node = j
            /\ \A j \in 1..(Len(Sers) - 1) : Sers[j].status = "succeeded"

OneEnd == Closed => /\ out[Len(out)].t = "end"
                    /\ Cardinality({j \in 1..Len(out) : out[j].t = "end"}) = 1

OkIffReturned == Closed => /\ (out[Len(out)].status = "ok") <=> (result = "returned")
                           /\ (result = "returned") <=> (status = "done")
                           /\ (result = "raised") => (Sers = <<>> \/ Sers[Len(Sers)].status = "error"
                                                      \/ failClass = "build")

\* one SER per node that started: completed nodes plus the failing one
SerPerStartedNode == Closed => Len(Sers) = (IF failClass = "build" THEN 0 ELSE pc)

ClosedOnExit == (result # "none") => ~open
OpenWhileWriting == (phase \in {"started", "running", "failing", "finishing", "ended"}) => open

EventuallyClosed == <>(phase = "closed" \/ Len(prog) = 0)

(***************************** C10: observational ************************)
Untraced == Init /\ [][Next]_vars

(***************************** C07: SER truthfulness (spec level) ********)
\* digest chaining: what node k+1 reads is what node k left
Chain == \A j \in 1..(Len(Sers) - 1) : Sers[j].post = Sers[j + 1].pre
\* a failing node leaves the data untouched; its context may already carry what the node wrote before it failed
\* (only a rename whose source key is configured but not in the context does so in this library)
ErrorKeepsPayload == \A j \in 1..Len(Sers) : Sers[j].status = "error" =>
                        /\ Sers[j].pre.data = Sers[j].post.data
                        /\ (Sers[j].kind # "Rename" => Sers[j].pre = Sers[j].post)
\* required_keys_present is PASS (no missing key) on every node that got past resolution
ResolvedHasKeys == \A j \in 1..Len(Sers) : Sers[j].resolved /\ Sers[j].inTypeOk => Sers[j].missing = {}

(****************************** emission **********************************)
TCase == [prog |-> prog, ictx |-> ictx, idata |-> idata, status |-> status,
          failClass |-> failClass, failAt |-> pc, out |-> out, result |-> result,
          data |-> data, ctx |-> ctx]
TEmitInv == (Closed /\ InBound) => PrintT(ToJson(TCase))
=============================================================================
