--------------------------- MODULE MC_Inspection ---------------------------
EXTENDS Inspection, Instances

\* use-before-create, create-and-require-in-one-node, delete-then-require,
\* type change across context-only nodes, sweep-published keys
FlowNodes ==
  { N0("Src0"), NC("Src", "value", 6), N0("Mul"), N0("MulDef"), NK("Probe", "factor", ""),
    NK("Rename", "factor", "addend"), NK("Rename", "factor", "factor"), NK("Delete", "factor", ""),
    NK("Template", "factor", "a"), NK("Template", "addend", "a"), N0("Add"), NC("MulDef", "factor", NullCfg), NK("CtxBind", "", "factor"), NK("FitM", "", "factor"), NS("SweepSrc", <<1, 2>>), N0("Sum"),
    NK("SweepSrcCtx", "t_values", ""), NK("SliceProbe", "factor", "") }
FlowInitCtxs ==
  {[k \in Keys |-> IF k = "t_values" THEN tv ELSE IF k \in S THEN Num(CtxVal(k)) ELSE Absent] :
      S \in SUBSET {"factor", "addend", "a"}, tv \in {Absent, List(<<1, 2>>)}}
=============================================================================
