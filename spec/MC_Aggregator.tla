--------------------------- MODULE MC_Aggregator ---------------------------
EXTENDS Aggregator

PS(r, l, ns)  == [t |-> "ps", run |-> r, launch |-> l, nodes |-> ns, node |-> 0, status |-> ""]
SER(r, n, s)  == [t |-> "ser", run |-> r, launch |-> 0, nodes |-> {}, node |-> n, status |-> s]
PE(r)         == [t |-> "pe", run |-> r, launch |-> 0, nodes |-> {}, node |-> 0, status |-> ""]
LS(l)         == [t |-> "ls", run |-> 0, launch |-> l, nodes |-> {}, node |-> 0, status |-> ""]
LE(l)         == [t |-> "le", run |-> 0, launch |-> l, nodes |-> {}, node |-> 0, status |-> ""]

\* one run of two nodes inside launch 1
U6 == {PS(1, 1, {1, 2}), SER(1, 1, "succeeded"), SER(1, 2, "succeeded"), PE(1), LS(1), LE(1)}
\* two runs of one node (second run fails) inside launch 1
U8 == {PS(1, 1, {1}), SER(1, 1, "succeeded"), PE(1), PS(2, 1, {1}), SER(2, 1, "error"), PE(2), LS(1), LE(1)}
\* two runs of two nodes inside launch 1
U10 == {PS(1, 1, {1, 2}), SER(1, 1, "succeeded"), SER(1, 2, "succeeded"), PE(1),
        PS(2, 1, {1, 2}), SER(2, 1, "succeeded"), SER(2, 2, "error"), PE(2), LS(1), LE(1)}
\* a standalone run (no launch) next to a launched run, with an orphan SER and a run of an unknown spec
U9 == {PS(1, 0, {1, 2}), SER(1, 1, "succeeded"), SER(1, 102, "succeeded"), PE(1),
       PS(2, 1, {}), SER(2, 100, "succeeded"), PE(2), LS(1), LE(1)}
\* a retried launch: launch 1 = (id, attempt 1) crashed before its run_space_end, launch 2 = (SAME id, attempt 2) completed
UA7 == {LS(1), PS(1, 1, {1}), PE(1), LS(2), PS(2, 2, {1}), PE(2), LE(2)}
\* one launch (same id, same attempt) executed twice: two runs, both with run-space index 0, the launch start seen twice
UD6 == {LS(1), PS(1, 1, {1}), PE(1), PS(2, 1, {1}), PE(2), LE(1)}
=============================================================================
