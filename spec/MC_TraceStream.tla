--------------------------- MODULE MC_TraceStream ---------------------------
EXTENDS TraceStream, Instances

\* a compact library with every failure kind at every position
TraceNodes ==
  { N0("Src0"), NC("Src", "value", 6), N0("Mul"), N0("MulDef"), NK("Probe", "factor", ""), N0("Sq"),
    NK("Rename", "factor", "a"), N0("CtxW"), N0("CtxWBad"), N0("Boom"), N0("Abort"),
    NK("Probe", "", ""), WithBogus(N0("Sq")), N0("Sum"), NS("SweepSrc", <<1, 2>>) }
\* length-4 programs: a smaller library (every failure kind still present) and two contexts
Trace4Nodes == { N0("Src0"), N0("MulDef"), NK("Probe", "factor", ""), N0("Boom"), N0("Abort"),
                 WithBogus(N0("Sq")), N0("Sum") }
\* several GENERATED classes of one factory in one pipeline (two slicers, two sweeps of one kind: they share a qualified name)
TraceSliceNodes == { NS("SweepSrc", <<1, 2>>), NS("SweepSrc", <<3>>), NC("SliceMul", "factor", 4), N0("SliceMulDef"), N0("SliceMul"),
                     NS("SweepMul", <<2, 3>>), NK("SliceProbe", "factor", ""), N0("Sum") }
OnlyNoData == {NoData}
TinyCtxs == {[k \in Keys |-> Absent], [k \in Keys |-> IF k = "factor" THEN Num(3) ELSE Absent]}
=============================================================================
