--------------------------- MODULE MC_TraceStream ---------------------------
EXTENDS TraceStream, Instances

\* a compact library with every failure kind at every position
TraceNodes ==
  { N0("Src0"), NC("Src", "value", 6), N0("Mul"), N0("MulDef"), NK("Probe", "factor", ""), N0("Sq"),
    NK("Rename", "factor", "a"), N0("CtxW"), N0("CtxWBad"), N0("Boom"), N0("Abort"),
    NK("Probe", "", ""), WithBogus(N0("Sq")), N0("Sum"), NS("SweepSrc", <<1, 2>>) }
\* length-4 programs: a smaller library (every failure kind still present) and two contexts
Trace4Nodes == { N0("Src0"), N0("MulDef"), NK("Probe", "factor", ""), N0("Boom"), N0("Abort"),
                 WithBogus(N0("Sq")), N0("Sum") }
TinyCtxs == {[k \in Keys |-> Absent], [k \in Keys |-> IF k = "factor" THEN Num(3) ELSE Absent]}
=============================================================================
