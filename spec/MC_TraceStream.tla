--------------------------- MODULE MC_TraceStream ---------------------------
EXTENDS TraceStream, Instances

\* a compact library with every failure kind at every position
TraceNodes ==
  { N0("Src0"), NC("Src", "value", 6), N0("Mul"), N0("MulDef"), NK("Probe", "factor", ""), N0("Sq"),
    NK("Rename", "factor", "a"), N0("CtxW"), N0("CtxWBad"), N0("Boom"), N0("Abort"),
    NK("Probe", "", ""), WithBogus(N0("Sq")), N0("Sum"), NS("SweepSrc", <<1, 2>>) }
=============================================================================
