--------------------------- MODULE TransportImpl ---------------------------
(***************************************************************************)
(* Line-level model of semantiva/execution/transport/in_memory.py:         *)
(* InMemorySemantivaTransport.publish and InMemorySubscription.__iter__,   *)
(* one label per source line that is a preemption point.                   *)
(*                                                                         *)
(* Queue objects live in a heap (id -> sequence) so that two deque objects *)
(* created for the same channel are distinguishable: with unsynchronised   *)
(* lazy creation (LockedCreate = FALSE, the defaultdict factory of the     *)
(* pinned tree) a publisher can append to an orphaned deque and the        *)
(* message is lost; with creation under a transport-level lock it cannot.  *)
(*                                                                         *)
(* Publishers and subscribers run concurrently; a subscriber's iterator    *)
(* ends when a scan finds nothing; the drainer (pattern "*") starts when   *)
(* everybody else is done -- the property's observation point.             *)
(***************************************************************************)
EXTENDS Integers, Sequences, FiniteSets, TLC

CONSTANTS Pubs,          \* publisher ids
          Subs,          \* concurrent subscriber ids
          Plan,          \* Plan[p] = sequence of channels publisher p publishes to
          Pattern,       \* Pattern[s] = channel or "*"
          Channels,
          PreExisting,   \* channels whose queue exists before anyone starts
          LockedCreate,  \* TRUE: lazy creation under a lock (fixed code)
          ChanSeq        \* the channels as a sequence (scan order of a subscription)

Drainer == "drainer"
Matches(ch, pat) == pat = "*" \/ pat = ch
MaxQ == Cardinality(Channels) + Cardinality(Pubs) * 2
Idx(c) == CHOOSE i \in 1..Len(ChanSeq) : ChanSeq[i] = c

(* --algorithm transport
variables
  heap = [i \in 1..MaxQ |-> <<>>],          \* deque objects
  nextId = Cardinality(PreExisting) + 1,
  chan = [c \in Channels |-> IF c \in PreExisting
                              THEN Cardinality({i \in 1..Idx(c) : ChanSeq[i] \in PreExisting}) ELSE 0],
  qlock = [i \in 1..MaxQ |-> "free"],        \* per-queue lock
  clock = "free",                            \* creation lock
  published = {},                            \* set of <<pub, idx, channel>>
  delivered = <<>>,                          \* pop log: <<consumer, pub, idx, channel>>
  done = {};

define
  AllDone == done = Pubs \cup Subs \cup {Drainer}
  Msgs(log) == {<<log[i][2], log[i][3], log[i][4]>> : i \in 1..Len(log)}
  NoDup == \A i, j \in 1..Len(delivered) :
              (i # j) => <<delivered[i][2], delivered[i][3]>> # <<delivered[j][2], delivered[j][3]>>
  NoLoss == AllDone => Msgs(delivered) = published
  NothingInvented == Msgs(delivered) \subseteq published
  PublisherChannelFifo ==
      \A i, j \in 1..Len(delivered) :
         (i < j /\ delivered[i][2] = delivered[j][2] /\ delivered[i][4] = delivered[j][4])
            => delivered[i][3] < delivered[j][3]
  MatchOnly == \A i \in 1..Len(delivered) :
                  LET c == delivered[i][1]
                  IN Matches(delivered[i][4], IF c = Drainer THEN "*" ELSE Pattern[c])
end define;

process pub \in Pubs
variables k = 1, q = 0, ch = "";
begin
 p_loop:
  while k <= Len(Plan[self]) do
     ch := Plan[self][k];
     if LockedCreate then
       p_lock:   await clock = "free"; clock := self;
     end if;
   p_lookup:                                  \* self._queues[channel]: hit or __missing__
     if chan[ch] # 0 then
        q := chan[ch];
     else
       p_factory:                             \* defaultdict factory: (deque(), Lock())
        q := nextId; nextId := nextId + 1;
       p_store:                               \* dict store of the new entry
        chan[ch] := q;
     end if;
   p_unlock:
     if LockedCreate then clock := "free"; end if;
   p_acquire:                                 \* with lock:
     await qlock[q] = "free"; qlock[q] := self;
   p_append:                                  \*     q.append(msg)
     heap[q] := Append(heap[q], <<self, k, ch>>);
     published := published \cup {<<self, k, ch>>};
   p_release:
     qlock[q] := "free";
     k := k + 1;
  end while;
  done := done \cup {self};
end process;

process con \in Subs \cup {Drainer}
variables snap = [c \in Channels |-> 0], j = 1, found = FALSE, running = TRUE, cq = 0, cc = "";
begin
 c_wait:
  if self = Drainer then await done = Pubs \cup Subs; end if;
 c_scan:
  while running do
     snap := chan;                            \* list(self._queues.items())
     found := FALSE;
     j := 1;
   c_each:
     while j <= Len(ChanSeq) /\ ~found do
        cc := ChanSeq[j];
        if snap[cc] # 0 /\ Matches(cc, IF self = Drainer THEN "*" ELSE Pattern[self]) then
           cq := snap[cc];
          c_acquire:                          \* with lock:
           await qlock[cq] = "free"; qlock[cq] := self;
          c_pop:                              \*     msg = q.popleft() if q else None
           if heap[cq] # <<>> then
              delivered := Append(delivered, <<self>> \o Head(heap[cq]));
              heap[cq] := Tail(heap[cq]);
              found := TRUE;                  \* yield msg; break
           end if;
          c_release:
           qlock[cq] := "free";
        end if;
       c_next:
        j := j + 1;
     end while;
     if ~found then running := FALSE; end if;
  end while;
 c_done:
  done := done \cup {self};
end process;
end algorithm; *)
\* BEGIN TRANSLATION (chksum(pcal) = "942e87f3" /\ chksum(tla) = "f8e72b94")
VARIABLES pc, heap, nextId, chan, qlock, clock, published, delivered, done

(* define statement *)
AllDone == done = Pubs \cup Subs \cup {Drainer}
Msgs(log) == {<<log[i][2], log[i][3], log[i][4]>> : i \in 1..Len(log)}
NoDup == \A i, j \in 1..Len(delivered) :
            (i # j) => <<delivered[i][2], delivered[i][3]>> # <<delivered[j][2], delivered[j][3]>>
NoLoss == AllDone => Msgs(delivered) = published
NothingInvented == Msgs(delivered) \subseteq published
PublisherChannelFifo ==
    \A i, j \in 1..Len(delivered) :
       (i < j /\ delivered[i][2] = delivered[j][2] /\ delivered[i][4] = delivered[j][4])
          => delivered[i][3] < delivered[j][3]
MatchOnly == \A i \in 1..Len(delivered) :
                LET c == delivered[i][1]
                IN Matches(delivered[i][4], IF c = Drainer THEN "*" ELSE Pattern[c])

VARIABLES k, q, ch, snap, j, found, running, cq, cc

vars == << pc, heap, nextId, chan, qlock, clock, published, delivered, done, 
           k, q, ch, snap, j, found, running, cq, cc >>

ProcSet == (Pubs) \cup (Subs \cup {Drainer})

Init == (* Global variables *)
        /\ heap = [i \in 1..MaxQ |-> <<>>]
        /\ nextId = Cardinality(PreExisting) + 1
        /\ chan = [c \in Channels |-> IF c \in PreExisting
                                       THEN Cardinality({i \in 1..Idx(c) : ChanSeq[i] \in PreExisting}) ELSE 0]
        /\ qlock = [i \in 1..MaxQ |-> "free"]
        /\ clock = "free"
        /\ published = {}
        /\ delivered = <<>>
        /\ done = {}
        (* Process pub *)
        /\ k = [self \in Pubs |-> 1]
        /\ q = [self \in Pubs |-> 0]
        /\ ch = [self \in Pubs |-> ""]
        (* Process con *)
        /\ snap = [self \in Subs \cup {Drainer} |-> [c \in Channels |-> 0]]
        /\ j = [self \in Subs \cup {Drainer} |-> 1]
        /\ found = [self \in Subs \cup {Drainer} |-> FALSE]
        /\ running = [self \in Subs \cup {Drainer} |-> TRUE]
        /\ cq = [self \in Subs \cup {Drainer} |-> 0]
        /\ cc = [self \in Subs \cup {Drainer} |-> ""]
        /\ pc = [self \in ProcSet |-> CASE self \in Pubs -> "p_loop"
                                        [] self \in Subs \cup {Drainer} -> "c_wait"]

p_loop(self) == /\ pc[self] = "p_loop"
                /\ IF k[self] <= Len(Plan[self])
                      THEN /\ ch' = [ch EXCEPT ![self] = Plan[self][k[self]]]
                           /\ IF LockedCreate
                                 THEN /\ pc' = [pc EXCEPT ![self] = "p_lock"]
                                 ELSE /\ pc' = [pc EXCEPT ![self] = "p_lookup"]
                           /\ done' = done
                      ELSE /\ done' = (done \cup {self})
                           /\ pc' = [pc EXCEPT ![self] = "Done"]
                           /\ ch' = ch
                /\ UNCHANGED << heap, nextId, chan, qlock, clock, published, 
                                delivered, k, q, snap, j, found, running, cq, 
                                cc >>

p_lookup(self) == /\ pc[self] = "p_lookup"
                  /\ IF chan[ch[self]] # 0
                        THEN /\ q' = [q EXCEPT ![self] = chan[ch[self]]]
                             /\ pc' = [pc EXCEPT ![self] = "p_unlock"]
                        ELSE /\ pc' = [pc EXCEPT ![self] = "p_factory"]
                             /\ q' = q
                  /\ UNCHANGED << heap, nextId, chan, qlock, clock, published, 
                                  delivered, done, k, ch, snap, j, found, 
                                  running, cq, cc >>

p_factory(self) == /\ pc[self] = "p_factory"
                   /\ q' = [q EXCEPT ![self] = nextId]
                   /\ nextId' = nextId + 1
                   /\ pc' = [pc EXCEPT ![self] = "p_store"]
                   /\ UNCHANGED << heap, chan, qlock, clock, published, 
                                   delivered, done, k, ch, snap, j, found, 
                                   running, cq, cc >>

p_store(self) == /\ pc[self] = "p_store"
                 /\ chan' = [chan EXCEPT ![ch[self]] = q[self]]
                 /\ pc' = [pc EXCEPT ![self] = "p_unlock"]
                 /\ UNCHANGED << heap, nextId, qlock, clock, published, 
                                 delivered, done, k, q, ch, snap, j, found, 
                                 running, cq, cc >>

p_unlock(self) == /\ pc[self] = "p_unlock"
                  /\ IF LockedCreate
                        THEN /\ clock' = "free"
                        ELSE /\ TRUE
                             /\ clock' = clock
                  /\ pc' = [pc EXCEPT ![self] = "p_acquire"]
                  /\ UNCHANGED << heap, nextId, chan, qlock, published, 
                                  delivered, done, k, q, ch, snap, j, found, 
                                  running, cq, cc >>

p_acquire(self) == /\ pc[self] = "p_acquire"
                   /\ qlock[q[self]] = "free"
                   /\ qlock' = [qlock EXCEPT ![q[self]] = self]
                   /\ pc' = [pc EXCEPT ![self] = "p_append"]
                   /\ UNCHANGED << heap, nextId, chan, clock, published, 
                                   delivered, done, k, q, ch, snap, j, found, 
                                   running, cq, cc >>

p_append(self) == /\ pc[self] = "p_append"
                  /\ heap' = [heap EXCEPT ![q[self]] = Append(heap[q[self]], <<self, k[self], ch[self]>>)]
                  /\ published' = (published \cup {<<self, k[self], ch[self]>>})
                  /\ pc' = [pc EXCEPT ![self] = "p_release"]
                  /\ UNCHANGED << nextId, chan, qlock, clock, delivered, done, 
                                  k, q, ch, snap, j, found, running, cq, cc >>

p_release(self) == /\ pc[self] = "p_release"
                   /\ qlock' = [qlock EXCEPT ![q[self]] = "free"]
                   /\ k' = [k EXCEPT ![self] = k[self] + 1]
                   /\ pc' = [pc EXCEPT ![self] = "p_loop"]
                   /\ UNCHANGED << heap, nextId, chan, clock, published, 
                                   delivered, done, q, ch, snap, j, found, 
                                   running, cq, cc >>

p_lock(self) == /\ pc[self] = "p_lock"
                /\ clock = "free"
                /\ clock' = self
                /\ pc' = [pc EXCEPT ![self] = "p_lookup"]
                /\ UNCHANGED << heap, nextId, chan, qlock, published, 
                                delivered, done, k, q, ch, snap, j, found, 
                                running, cq, cc >>

pub(self) == p_loop(self) \/ p_lookup(self) \/ p_factory(self)
                \/ p_store(self) \/ p_unlock(self) \/ p_acquire(self)
                \/ p_append(self) \/ p_release(self) \/ p_lock(self)

c_wait(self) == /\ pc[self] = "c_wait"
                /\ IF self = Drainer
                      THEN /\ done = Pubs \cup Subs
                      ELSE /\ TRUE
                /\ pc' = [pc EXCEPT ![self] = "c_scan"]
                /\ UNCHANGED << heap, nextId, chan, qlock, clock, published, 
                                delivered, done, k, q, ch, snap, j, found, 
                                running, cq, cc >>

c_scan(self) == /\ pc[self] = "c_scan"
                /\ IF running[self]
                      THEN /\ snap' = [snap EXCEPT ![self] = chan]
                           /\ found' = [found EXCEPT ![self] = FALSE]
                           /\ j' = [j EXCEPT ![self] = 1]
                           /\ pc' = [pc EXCEPT ![self] = "c_each"]
                      ELSE /\ pc' = [pc EXCEPT ![self] = "c_done"]
                           /\ UNCHANGED << snap, j, found >>
                /\ UNCHANGED << heap, nextId, chan, qlock, clock, published, 
                                delivered, done, k, q, ch, running, cq, cc >>

c_each(self) == /\ pc[self] = "c_each"
                /\ IF j[self] <= Len(ChanSeq) /\ ~found[self]
                      THEN /\ cc' = [cc EXCEPT ![self] = ChanSeq[j[self]]]
                           /\ IF snap[self][cc'[self]] # 0 /\ Matches(cc'[self], IF self = Drainer THEN "*" ELSE Pattern[self])
                                 THEN /\ cq' = [cq EXCEPT ![self] = snap[self][cc'[self]]]
                                      /\ pc' = [pc EXCEPT ![self] = "c_acquire"]
                                 ELSE /\ pc' = [pc EXCEPT ![self] = "c_next"]
                                      /\ cq' = cq
                           /\ UNCHANGED running
                      ELSE /\ IF ~found[self]
                                 THEN /\ running' = [running EXCEPT ![self] = FALSE]
                                 ELSE /\ TRUE
                                      /\ UNCHANGED running
                           /\ pc' = [pc EXCEPT ![self] = "c_scan"]
                           /\ UNCHANGED << cq, cc >>
                /\ UNCHANGED << heap, nextId, chan, qlock, clock, published, 
                                delivered, done, k, q, ch, snap, j, found >>

c_next(self) == /\ pc[self] = "c_next"
                /\ j' = [j EXCEPT ![self] = j[self] + 1]
                /\ pc' = [pc EXCEPT ![self] = "c_each"]
                /\ UNCHANGED << heap, nextId, chan, qlock, clock, published, 
                                delivered, done, k, q, ch, snap, found, 
                                running, cq, cc >>

c_acquire(self) == /\ pc[self] = "c_acquire"
                   /\ qlock[cq[self]] = "free"
                   /\ qlock' = [qlock EXCEPT ![cq[self]] = self]
                   /\ pc' = [pc EXCEPT ![self] = "c_pop"]
                   /\ UNCHANGED << heap, nextId, chan, clock, published, 
                                   delivered, done, k, q, ch, snap, j, found, 
                                   running, cq, cc >>

c_pop(self) == /\ pc[self] = "c_pop"
               /\ IF heap[cq[self]] # <<>>
                     THEN /\ delivered' = Append(delivered, <<self>> \o Head(heap[cq[self]]))
                          /\ heap' = [heap EXCEPT ![cq[self]] = Tail(heap[cq[self]])]
                          /\ found' = [found EXCEPT ![self] = TRUE]
                     ELSE /\ TRUE
                          /\ UNCHANGED << heap, delivered, found >>
               /\ pc' = [pc EXCEPT ![self] = "c_release"]
               /\ UNCHANGED << nextId, chan, qlock, clock, published, done, k, 
                               q, ch, snap, j, running, cq, cc >>

c_release(self) == /\ pc[self] = "c_release"
                   /\ qlock' = [qlock EXCEPT ![cq[self]] = "free"]
                   /\ pc' = [pc EXCEPT ![self] = "c_next"]
                   /\ UNCHANGED << heap, nextId, chan, clock, published, 
                                   delivered, done, k, q, ch, snap, j, found, 
                                   running, cq, cc >>

c_done(self) == /\ pc[self] = "c_done"
                /\ done' = (done \cup {self})
                /\ pc' = [pc EXCEPT ![self] = "Done"]
                /\ UNCHANGED << heap, nextId, chan, qlock, clock, published, 
                                delivered, k, q, ch, snap, j, found, running, 
                                cq, cc >>

con(self) == c_wait(self) \/ c_scan(self) \/ c_each(self) \/ c_next(self)
                \/ c_acquire(self) \/ c_pop(self) \/ c_release(self)
                \/ c_done(self)

(* Allow infinite stuttering to prevent deadlock on termination. *)
Terminating == /\ \A self \in ProcSet: pc[self] = "Done"
               /\ UNCHANGED vars

Next == (\E self \in Pubs: pub(self))
           \/ (\E self \in Subs \cup {Drainer}: con(self))
           \/ Terminating

Spec == Init /\ [][Next]_vars

Termination == <>(\A self \in ProcSet: pc[self] = "Done")

\* END TRANSLATION 
 
=============================================================================
