---------------------------- MODULE MC_Override ----------------------------
EXTENDS Override, Instances

NodeT(kind, params) == M([x \in {"processor", "parameters"} |-> IF x = "processor" THEN S(kind) ELSE params])
NodeBare(kind)      == M([x \in {"processor"} |-> S(kind)])
P1(name, i)         == M([x \in {name} |-> N(i)])
DocOf(nodes)        == M([x \in {"pipeline"} |-> M([y \in {"nodes"} |-> L(nodes)])])

\* D1: everything configured.  D2: nothing configured (value is required from --context, factor has a
\* default), `parameters:` spelled as an empty mapping / as null / left out.  D3: an invalid document
\* (unknown parameter) that an override of the whole `parameters` block can repair.
D1 == DocOf(<<NodeT("Src", P1("value", 1)), NodeBare("Touch"), NodeT("Mul", P1("factor", 2)), NodeBare("Touch")>>)
D2 == DocOf(<<NodeBare("Src"), NodeT("Touch", Z), NodeT("MulDef", EmptyMap), NodeBare("Touch")>>)
D3 == DocOf(<<NodeT("Src", P1("value", 2)), NodeBare("Touch"),
              NodeT("Mul", M([x \in {"factor", "bogus"} |-> N(2)])), NodeBare("Touch")>>)
Docs == {D1, D2, D3}

CtxOf(Sk) == [k \in Keys |-> IF k \in Sk THEN Num(CtxVal(k)) ELSE Absent]
OvCtxs == {CtxOf({}), CtxOf({"value"}), CtxOf({"value", "factor", "addend"})}

OvValues == {N(3), Z, S("Add"), S("Sum"), S("Sq"), S("NoSuch"), P1("factor", 3), P1("addend", 3), EmptyMap,
             NodeBare("Sq"), L(<<>>)}
OvAlphabet == {"pipeline", "nodes", "processor", "parameters", "factor", "value", "addend", "bogus",
               "0", "1", "2", "3", "4", "02", "+2", "-1", "-2", "-4", "-5", "x", ""}

\* two overrides: fewer values / components / contexts
OvValues2 == {N(3), S("Add"), P1("factor", 3), P1("addend", 3), EmptyMap, NodeBare("Sq"), Z}
OvAlphabet2 == {"pipeline", "nodes", "processor", "parameters", "factor", "addend", "1", "2", "4", "-2", "x"}
OvCtxs2 == {CtxOf({"value"}), CtxOf({"value", "factor", "addend"})}

\* emission filters: every accepted override sequence; of the rejected ones only one value per path
\* (the value plays no part in a rejection)
EmitAll == Terminal /\ (st = "rejected" => applied[Len(applied)].val = N(3))
EmitInv == EmitAll => PrintT(ToJson(Case))
\* with two overrides: the second one addresses a place above, below or equal to the first
\* (the interaction AppliedInOrder is about), or both are accepted
Interacting == Len(applied) = 2 =>
                  \/ Related(applied[1].path, applied[2].path)
                  \/ st = "decided"
EmitInv2 == (EmitAll /\ Interacting) => PrintT(ToJson(Case))
=============================================================================
