----------------------------- MODULE ContextColl -----------------------------
(***************************************************************************)
(* The context-collection state machine                                    *)
(* (semantiva/context_processors/context_types.py: ContextCollectionType,  *)
(*  context_observer.py: _ContextObserver.update_context / delete_context).*)
(* Not one of the listed properties: growth of the specification towards   *)
(* the parts of the context channel that C01 leaves out (C01 quantifies    *)
(* over plain ContextType contexts only).                                  *)
(*                                                                         *)
(* State: one global dictionary g and a list ls of local dictionaries.     *)
(* A dictionary is a function Keys -> Cell where -1 = key absent,          *)
(* 0 = key present holding Python None, n > 0 = key holding the int n.     *)
(* One action per public method; every action records in `last` the        *)
(* pre-state, the call, its result (value or exception class) and the      *)
(* post-state, so that the set of reachable states of the model IS the set *)
(* of transitions to replay into the code (one implementation test per     *)
(* transition).  With KeepLog the module instead carries an operation log  *)
(* (for -simulate walks: history dependence, aliasing).                    *)
(***************************************************************************)
EXTENDS Integers, Sequences, FiniteSets, TLC, Json

CONSTANTS Keys, Vals, MaxLocals, MaxOps, KeepLog, InitStates, AppendDicts
\* InitStates: set of [g, ls]; AppendDicts: the dictionaries offered to append()

ABSENT == -1
NONE   == 0
Stored == Vals \cup {NONE}
Cell   == Stored \cup {ABSENT}
Dict   == [Keys -> Cell]
Empty  == [k \in Keys |-> ABSENT]

VARIABLES g, ls, last, log, nops
vars == <<g, ls, last, log, nops>>

Has(d, k)     == d[k] # ABSENT
KeysOf(d)     == {k \in Keys : Has(d, k)}
LocalKeys(l)  == UNION {KeysOf(l[i]) : i \in 1..Len(l)}
Conflicts(gg, l)    == KeysOf(gg) \cap LocalKeys(l)
ConflictFree(gg, l) == Conflicts(gg, l) = {}

\* ---- results (uniform records so that TLC can compare any two) ----------
NoM  == [k \in Keys |-> [kind |-> "absent", v |-> 0, items |-> <<>>]]
Res(kind, v, items, d, ks, m) == [kind |-> kind, v |-> v, items |-> items, d |-> d, ks |-> ks, m |-> m]
Void        == Res("void", 0, <<>>, Empty, {}, NoM)
Scalar(n)   == Res("scalar", n, <<>>, Empty, {}, NoM)
ListOf(s)   == Res("list", 0, s, Empty, {}, NoM)
DictOf(d)   == Res("dict", 0, <<>>, d, {}, NoM)
KeySet(S)   == Res("keys", 0, <<>>, Empty, S, NoM)
ItemsOf(m)  == Res("items", 0, <<>>, Empty, {}, m)
Raises(e)   == Res(e, 0, <<>>, Empty, {}, NoM)
IsError(r)  == r.kind \in {"ValueError", "KeyError", "IndexError", "TypeError"}

Op(name, i, k, v, d) == [name |-> name, i |-> i, k |-> k, v |-> v, d |-> d]

\* ---- the methods as functions of the state ------------------------------
\* get_value: None stored in a local context counts as "not there"
Indiv(l, k) == [i \in 1..Len(l) |-> IF l[i][k] = ABSENT THEN NONE ELSE l[i][k]]
AnyNonNone(l, k) == \E i \in 1..Len(l) : Indiv(l, k)[i] # NONE
GetValue(gg, l, k) ==
    IF Has(gg, k) /\ AnyNonNone(l, k) THEN Raises("ValueError")
    ELSE IF Has(gg, k) THEN Scalar(gg[k])
    ELSE IF AnyNonNone(l, k) THEN ListOf(Indiv(l, k))
    ELSE Scalar(NONE)
KeysRes(gg, l) == IF ConflictFree(gg, l) THEN KeySet(KeysOf(gg) \cup LocalKeys(l)) ELSE Raises("ValueError")
\* items(): keys() first, then get_value per key (which cannot raise once keys() did not ... unless a
\* local holds None under a global key -- impossible: that key would be a conflict)
ItemsRes(gg, l) ==
    IF ~ConflictFree(gg, l) THEN Raises("ValueError")
    ELSE ItemsOf([k \in Keys |-> IF k \in KeysOf(gg) \cup LocalKeys(l)
                                 THEN LET r == GetValue(gg, l, k) IN [kind |-> r.kind, v |-> r.v, items |-> r.items]
                                 ELSE NoM[k]])
\* get_item(i): a merged COPY; overlap is an error
ItemRes(gg, l, i) ==
    IF i > Len(l) THEN Raises("IndexError")
    ELSE IF KeysOf(l[i]) \cap KeysOf(gg) # {} THEN Raises("ValueError")
    ELSE DictOf([k \in Keys |-> IF Has(l[i], k) THEN l[i][k] ELSE gg[k]])
\* get_slice_context(i): a ChainMap VIEW, local first
SliceRes(gg, l, i) ==
    IF i > Len(l) THEN Raises("IndexError")
    ELSE DictOf([k \in Keys |-> IF Has(l[i], k) THEN l[i][k] ELSE gg[k]])

Step(op, res, g2, l2) ==
    /\ g' = g2 /\ ls' = l2
    /\ last' = [pre_g |-> g, pre_ls |-> ls, op |-> op, res |-> res, post_g |-> g2, post_ls |-> l2]
    /\ log' = IF KeepLog THEN Append(log, [op |-> op, res |-> res, post_g |-> g2, post_ls |-> l2]) ELSE log
    /\ nops' = IF KeepLog THEN nops + 1 ELSE nops
Pure(op, res) == Step(op, res, g, ls)

\* set_value: global wins; else (keys() is consulted and may raise) a key known to some local is set in
\* ALL locals; else the key becomes global
SetValue(k, v) ==
    LET op == Op("set_value", 0, k, v, Empty) IN
    IF Has(g, k) THEN Step(op, Void, [g EXCEPT ![k] = v], ls)
    ELSE IF ~ConflictFree(g, ls) THEN Pure(op, Raises("ValueError"))
    ELSE IF k \in LocalKeys(ls) THEN Step(op, Void, g, [i \in 1..Len(ls) |-> [ls[i] EXCEPT ![k] = v]])
    ELSE Step(op, Void, [g EXCEPT ![k] = v], ls)
GetValueOp(k) == Pure(Op("get_value", 0, k, 0, Empty), GetValue(g, ls, k))
DeleteValue(k) ==
    LET op == Op("delete_value", 0, k, 0, Empty) IN
    IF ~Has(g, k) /\ k \notin LocalKeys(ls) THEN Pure(op, Raises("KeyError"))
    ELSE Step(op, Void, [g EXCEPT ![k] = ABSENT], [i \in 1..Len(ls) |-> [ls[i] EXCEPT ![k] = ABSENT]])
\* set_item_value: the global test comes before the index is used
SetItemValue(i, k, v) ==
    LET op == Op("set_item_value", i, k, v, Empty) IN
    IF Has(g, k) THEN Pure(op, Raises("ValueError"))
    ELSE IF i > Len(ls) THEN Pure(op, Raises("IndexError"))
    ELSE Step(op, Void, g, [ls EXCEPT ![i] = [@ EXCEPT ![k] = v]])
DeleteItemValue(i, k) ==
    LET op == Op("delete_item_value", i, k, 0, Empty) IN
    IF i > Len(ls) THEN Pure(op, Raises("IndexError"))
    ELSE IF ~Has(ls[i], k) THEN Pure(op, Raises("KeyError"))
    ELSE Step(op, Void, g, [ls EXCEPT ![i] = [@ EXCEPT ![k] = ABSENT]])
GetItem(i)  == Pure(Op("get_item", i, "", 0, Empty), ItemRes(g, ls, i))
GetSlice(i) == Pure(Op("get_slice_context", i, "", 0, Empty), SliceRes(g, ls, i))
\* writes through the ChainMap view (observer.update_context / delete_context on a slice context)
\* go to the local dictionary without looking at the global one -- the only way, besides append and
\* the constructor, to create a conflict
SliceWrite(i, k, v) ==
    LET op == Op("slice_write", i, k, v, Empty) IN
    IF i > Len(ls) THEN Pure(op, Raises("IndexError"))
    ELSE Step(op, Void, g, [ls EXCEPT ![i] = [@ EXCEPT ![k] = v]])
SliceDelete(i, k) ==
    LET op == Op("slice_delete", i, k, 0, Empty) IN
    IF i > Len(ls) THEN Pure(op, Raises("IndexError"))
    ELSE IF ~Has(ls[i], k) THEN Pure(op, Raises("KeyError"))
    ELSE Step(op, Void, g, [ls EXCEPT ![i] = [@ EXCEPT ![k] = ABSENT]])
KeysOp  == Pure(Op("keys", 0, "", 0, Empty), KeysRes(g, ls))
ItemsOp == Pure(Op("items", 0, "", 0, Empty), ItemsRes(g, ls))
Clear   == Step(Op("clear", 0, "", 0, Empty), Void, Empty, [i \in 1..Len(ls) |-> Empty])
AppendCtx(d) == /\ Len(ls) < MaxLocals
                /\ Step(Op("append", 0, "", 0, d), Void, g, Append(ls, d))
AppendBad == Pure(Op("append_bad", 0, "", 0, Empty), Raises("TypeError"))

Init == /\ \E s \in InitStates : g = s.g /\ ls = s.ls
        /\ last = [pre_g |-> g, pre_ls |-> ls, op |-> Op("init", 0, "", 0, Empty), res |-> Void, post_g |-> g, post_ls |-> ls]
        /\ log = IF KeepLog THEN <<[op |-> Op("init", 0, "", 0, Empty), res |-> Void, post_g |-> g, post_ls |-> ls]>> ELSE <<>>
        /\ nops = 0

Idx == 1..(MaxLocals + 1)       \* MaxLocals + 1 is always out of range
Calls == /\ nops < MaxOps
        /\ \/ \E k \in Keys, v \in Stored : SetValue(k, v)
           \/ \E k \in Keys : GetValueOp(k) \/ DeleteValue(k)
           \/ \E i \in Idx, k \in Keys, v \in Stored : SetItemValue(i, k, v) \/ SliceWrite(i, k, v)
           \/ \E i \in Idx, k \in Keys : DeleteItemValue(i, k) \/ SliceDelete(i, k)
           \/ \E i \in Idx : GetItem(i) \/ GetSlice(i)
           \/ KeysOp \/ ItemsOp \/ Clear \/ AppendBad
           \/ \E d \in AppendDicts : AppendCtx(d)
\* a finished walk stutters (no deadlock at the end of a simulated behaviour)
Next == Calls \/ (nops = MaxOps /\ UNCHANGED vars)
Spec == Init /\ [][Next]_vars

\* ---- what the design promises (checked by TLC on every reachable transition) --------------------
TypeOK == g \in Dict /\ Len(ls) <= MaxLocals /\ \A i \in 1..Len(ls) : ls[i] \in Dict
\* a failed call changes nothing
ErrorsChangeNothing == IsError(last.res) => last.post_g = last.pre_g /\ last.post_ls = last.pre_ls
\* only append and writes through a slice view can make a key live in both places
ConflictOnlyBySliceOrAppend ==
    (ConflictFree(last.pre_g, last.pre_ls) /\ last.op.name \notin {"append", "slice_write", "init"})
        => ConflictFree(last.post_g, last.post_ls)
\* read your writes
ReadYourWrite ==
    (last.op.name = "set_value" /\ ~IsError(last.res)) =>
        LET r == GetValue(g, ls, last.op.k) IN
        \/ r = Scalar(last.op.v)
        \/ (r.kind = "list" /\ \A i \in 1..Len(ls) : r.items[i] = last.op.v)
        \/ (Has(g, last.op.k) /\ r.kind = "ValueError")   \* a pre-existing conflict stays a conflict
DeleteRemoves == (last.op.name = "delete_value" /\ ~IsError(last.res)) => ~Has(g, last.op.k) /\ last.op.k \notin LocalKeys(ls)
\* on a conflict-free collection the merged copy and the view agree, and keys() is the union
ViewsAgree == ConflictFree(g, ls) => \A i \in 1..Len(ls) : ItemRes(g, ls, i) = SliceRes(g, ls, i)
KeysRaisesIffConflict == (KeysRes(g, ls).kind = "ValueError") <=> ~ConflictFree(g, ls)
\* get_value never invents a value
GetValueSound == \A k \in Keys : LET r == GetValue(g, ls, k) IN
                    /\ (r.kind = "scalar" /\ r.v # NONE) => g[k] = r.v
                    /\ (r.kind = "list") => Len(r.items) = Len(ls) /\ ~Has(g, k)

EmitStepInv == (last.op.name # "init") => PrintT(ToJson(last))
EmitLogInv  == (nops = MaxOps) => PrintT(ToJson(log))
=============================================================================
