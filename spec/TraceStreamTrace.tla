-------------------------- MODULE TraceStreamTrace --------------------------
(***************************************************************************)
(* Batch validation of recorded JSONL streams against TraceStream.tla.     *)
(* A trace = [prog, ictx, idata, events, returned, closed, schema_ok,      *)
(* ids_ok, upstream_ok]; events are the records the runtime wrote          *)
(* ({t:"start"} | {t:"ser",node,status} | {t:"end",status}).  TBuild and   *)
(* TClose write no record: they are silent steps of the trace spec (each   *)
(* can happen once, so the trace spec stays finite).                       *)
(***************************************************************************)
EXTENDS TraceStream, IOUtils, TLCExt

Traces == JsonDeserialize(IOEnv.TRACE_FILE)
VARIABLES tid, ix
trvars == <<tvars, tid, ix>>
Tr == Traces[tid]
Ev == Tr.events[ix]

TrInit == /\ tid \in 1..Len(Traces) /\ ix = 1
          /\ prog = Traces[tid].prog /\ ictx = Traces[tid].ictx /\ idata = Traces[tid].idata
          /\ pc = 0 /\ data = Traces[tid].idata /\ ctx = Traces[tid].ictx
          /\ status = "init" /\ failClass = "" /\ steps = <<>>
          /\ phase = "idle" /\ out = <<>> /\ open = FALSE /\ result = "none"

Consume == ix <= Len(Tr.events) /\ ix' = ix + 1 /\ UNCHANGED tid
Silent  == UNCHANGED <<tid, ix>>

TrStart == /\ Consume /\ Ev.t = "start" /\ TStart
TrBuild == /\ Silent /\ TBuild
TrSer   == /\ Consume /\ Ev.t = "ser" /\ TStep
           /\ Last(out').node = Ev.node /\ Last(out').status = Ev.status
TrEnd   == /\ Consume /\ Ev.t = "end" /\ TEnd /\ Last(out').status = Ev.status
TrClose == /\ Silent /\ ix = Len(Tr.events) + 1 /\ TClose
           /\ Tr.closed /\ Tr.schema_ok /\ Tr.ids_ok /\ Tr.upstream_ok
           /\ (result' = "returned") <=> Tr.returned

TrNext == TrStart \/ TrBuild \/ TrSer \/ TrEnd \/ TrClose
TrSpec == TrInit /\ [][TrNext]_trvars

Mark == (phase = "closed") => TLCSet(1, TLCGet(1) \cup {tid})
Hi == TLCSet(2, IF ix > TLCGet(2) THEN ix ELSE TLCGet(2))
Post == /\ PrintT(<<"ACCEPTED", Cardinality(TLCGet(1)), Len(Traces)>>)
        /\ LET rej == (1..Len(Traces)) \ TLCGet(1) IN IF rej = {} THEN TRUE ELSE PrintT(<<"REJECTED", rej>>)
PostDiag == PrintT(<<"MATCHED", TLCGet(2) - 1>>)
ASSUME TLCSet(1, {}) /\ TLCSet(2, 0)
=============================================================================
