----------------------------- MODULE MC_Registry -----------------------------
EXTENDS Registry
Mods == {"defaults", "examples", "vlib"}
Defs == {"defaults"}
ExtSet == {"semantiva-examples"}
ExtMods == [e \in ExtSet |-> {"examples"}]
Names == [m \in Mods |-> IF m = "defaults" THEN {"CopyDataProbe"} ELSE IF m = "examples" THEN {"FloatMultiplyOperation"} ELSE {"VBoomOperation"}]
Probes == {"CopyDataProbe", "FloatMultiplyOperation", "VBoomOperation"}
=============================================================================
