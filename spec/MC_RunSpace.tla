---------------------------- MODULE MC_RunSpace ----------------------------
EXTENDS RunSpace
LenSet == {0, 1, 2, 3}
ColsOver(K) == UNION {[S -> LenSet] : S \in SUBSET K}
Srcs == {NoSrc} \cup
        {[mode |-> m, cols |-> c, select |-> sel, rename |-> rn] :
            m \in {"bp", "comb"}, c \in ColsOver({"c", "a"}) \ {<<>>},
            sel \in {{"*"}, {"c"}, {"c", "e"}},
            rn \in {<<>>, [k \in {"c"} |-> "d"], [k \in {"c"} |-> "a"]}}
\* one block with every source feature
PoolSrc == {[mode |-> m, ctx |-> c, src |-> s] : m \in {"bp", "comb"}, c \in ColsOver({"a", "b"}), s \in Srcs}
\* blocks without sources over overlapping key sets (duplicates across blocks)
PoolCtx == {[mode |-> m, ctx |-> c, src |-> NoSrc] : m \in {"bp", "comb"}, c \in ColsOver({"a", "b"}) \cup ColsOver({"b", "c"})}
\* small mixed pool for simulation of 3-4 block specs
SmallSrcs == {NoSrc, [mode |-> "bp", cols |-> [k \in {"e"} |-> 2], select |-> {"*"}, rename |-> <<>>],
              [mode |-> "bp", cols |-> [k \in {"e"} |-> 2], select |-> {"*"}, rename |-> [k \in {"e"} |-> "c"]],
              [mode |-> "bp", cols |-> [k \in {"e"} |-> 2], select |-> {"*"}, rename |-> [k \in {"e"} |-> "b"]],
              [mode |-> "comb", cols |-> [k \in {"d", "e"} |-> IF k = "d" THEN 2 ELSE 3], select |-> {"*"}, rename |-> [k \in {"e"} |-> "a"]]}
\* two blocks reading the SAME file: every pair of (select, rename) variants over one column set --
\* sources that agree on path / format / mode / select and differ only in the rename TARGET included
E2 == [k \in {"d", "e"} |-> 2]
SameFileSrcs == {[mode |-> "bp", cols |-> E2, select |-> sel, rename |-> rn] :
                    sel \in {{"*"}, {"e"}},
                    rn \in {<<>>, [k \in {"e"} |-> "c"], [k \in {"e"} |-> "a"], [k \in {"d"} |-> "c"],
                            [k \in {"d", "e"} |-> IF k = "d" THEN "e" ELSE "d"],        \* a swap: renames are simultaneous
                            [k \in {"d", "e"} |-> IF k = "d" THEN "e" ELSE "c"]}} \cup {NoSrc}      \* a chain d -> e -> c
PoolSrc2 == {[mode |-> "bp", ctx |-> c, src |-> s] : c \in {<<>>, [k \in {"b"} |-> 2]}, s \in SameFileSrcs}
PoolMix == {[mode |-> m, ctx |-> c, src |-> s] : m \in {"bp", "comb"},
               c \in UNION {[S -> {1, 2, 3}] : S \in {{}, {"a"}, {"b"}, {"c"}, {"a", "b"}, {"d"}}}, s \in SmallSrcs}
\* three blocks, exhaustively: a key may be declared twice by NEIGHBOURS or by blocks that are not neighbours, inline or by a
\* source column (directly / after a rename)
A2 == [k \in {"a"} |-> 2]
Pool3 == {[mode |-> "bp", ctx |-> A2, src |-> NoSrc], [mode |-> "bp", ctx |-> [k \in {"b"} |-> 2], src |-> NoSrc],
          [mode |-> "bp", ctx |-> [k \in {"c"} |-> 2], src |-> NoSrc],
          [mode |-> "bp", ctx |-> <<>>, src |-> [mode |-> "bp", cols |-> A2, select |-> {"*"}, rename |-> <<>>]],
          [mode |-> "bp", ctx |-> <<>>, src |-> [mode |-> "bp", cols |-> [k \in {"e"} |-> 2], select |-> {"*"}, rename |-> [k \in {"e"} |-> "a"]]],
          [mode |-> "bp", ctx |-> [k \in {"d"} |-> 2], src |-> [mode |-> "bp", cols |-> [k \in {"e"} |-> 2], select |-> {"*"}, rename |-> <<>>]]}
=============================================================================
