---------------------------- MODULE MC_RunSpace ----------------------------
EXTENDS RunSpace
LenSet == {0, 1, 2, 3}
ColsOver(K) == UNION {[S -> LenSet] : S \in SUBSET K}
Srcs == {NoSrc} \cup
        {[mode |-> m, cols |-> c, select |-> sel, rename |-> rn] :
            m \in {"bp", "comb"}, c \in ColsOver({"c", "a"}) \ {<<>>},
            sel \in {{"*"}, {"c"}, {"c", "e"}},
            rn \in {<<>>, [k \in {"c"} |-> "d"], [k \in {"c"} |-> "a"]}}
\* one block with every source feature
PoolSrc == {[mode |-> m, ctx |-> c, src |-> s] : m \in {"bp", "comb"}, c \in ColsOver({"a", "b"}), s \in Srcs}
\* blocks without sources over overlapping key sets (duplicates across blocks)
PoolCtx == {[mode |-> m, ctx |-> c, src |-> NoSrc] : m \in {"bp", "comb"}, c \in ColsOver({"a", "b"}) \cup ColsOver({"b", "c"})}
\* small mixed pool for simulation of 3-4 block specs
SmallSrcs == {NoSrc, [mode |-> "bp", cols |-> [k \in {"e"} |-> 2], select |-> {"*"}, rename |-> <<>>],
              [mode |-> "bp", cols |-> [k \in {"e"} |-> 2], select |-> {"*"}, rename |-> [k \in {"e"} |-> "c"]],
              [mode |-> "comb", cols |-> [k \in {"d", "e"} |-> IF k = "d" THEN 2 ELSE 3], select |-> {"*"}, rename |-> [k \in {"e"} |-> "a"]]}
PoolMix == {[mode |-> m, ctx |-> c, src |-> s] : m \in {"bp", "comb"},
               c \in UNION {[S -> {1, 2, 3}] : S \in {{}, {"a"}, {"b"}, {"c"}, {"a", "b"}, {"d"}}}, s \in SmallSrcs}
=============================================================================
