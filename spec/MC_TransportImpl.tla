-------------------------- MODULE MC_TransportImpl --------------------------
EXTENDS TransportImpl
\* two publishers racing on a not-yet-existing channel "a" plus an existing channel "b",
\* one concurrent wildcard subscriber, then the drainer
Pubs2 == {"p1", "p2"}
Plan2 == [p \in Pubs2 |-> IF p = "p1" THEN <<"a", "b">> ELSE <<"a", "a">>]
Subs1 == {"s1"}
Pat1 == [s \in Subs1 |-> "*"]
PatA == [s \in Subs1 |-> "a"]
Chans == {"a", "b"}
ChanSeq2 == <<"a", "b">>
Pre == {"b"}
NoSubs == {}
NoPat == <<>>
Pubs3 == {"p1", "p2", "p3"}
Plan3 == [p \in Pubs3 |-> <<"a">>]
=============================================================================
