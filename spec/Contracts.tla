----------------------------- MODULE Contracts -----------------------------
(***************************************************************************)
(* The contract catalogue (Semantiva Validation Assertions, SVA) as a      *)
(* decision procedure -- growth of the specification beyond the listed     *)
(* properties (extension check X03).                                       *)
(*                                                                         *)
(* A component class is abstracted to a DESCRIPTOR: the finitely many      *)
(* features of a class the documented catalogue (docs/source/              *)
(* contracts_catalog.md, contracts.rst, data_io.rst) talks about -- how    *)
(* each *_data_type method is declared and what it returns, the shape of   *)
(* the metadata, which keys the metadata has, whether the class is in the  *)
(* component registry under its category, the signature of _process_logic, *)
(* the length of the docstring, the processor a node class wraps.          *)
(* Diags(d) is the SEQUENCE of diagnostics the validator must report for   *)
(* d, in catalogue order.  WellFormed(d) is the positive definition of a   *)
(* component of each category as the user guides give it; TLC checks that  *)
(* the two formulations agree (NoErrorIffWellFormed) and that the exit     *)
(* status of `semantiva dev lint` follows.                                 *)
(*                                                                         *)
(* Deliberate deviations of the code from the catalogue are modelled as    *)
(* what the code does and NAMED:                                           *)
(*   * ParamsReportedAs103: the category rules SVA221 / SVA232 ("same      *)
(*     validator as SVA103") report under the code SVA103, so a component  *)
(*     with malformed `parameters` gets SVA103 twice and never SVA221/232. *)
(*   * ParamsRuleRaises: the message text of SVA103 contains a literal     *)
(*     "{}" and is passed through str.format, so REPORTING SVA103 raises   *)
(*     IndexError: a component with malformed `parameters` makes           *)
(*     validate_component (and `semantiva dev lint`) fail with a traceback *)
(*     instead of a diagnostic; SVA103 / 221 / 232 are never seen.         *)
(*   * OverlapRuleRaises: SVA106 builds set(injected) & set(suppressed)    *)
(*     without first checking SVA104/105's shape, so a non-iterable value  *)
(*     (or unhashable members) makes validate_component raise TypeError.   *)
(***************************************************************************)
EXTENDS Naturals, Sequences, FiniteSets, TLC

Components == {"DataSource", "PayloadSource", "DataSink", "PayloadSink", "DataOperation", "DataProbe", "ContextProcessor"}
SourceNodes == {"DataSourceNode", "PayloadSourceNode"}
SinkNodes   == {"DataSinkNode", "PayloadSinkNode"}
ProbeNodes  == {"ProbeContextInjectorNode", "ProbeResultCollectorNode"}
\* "Widget": a category the catalogue has no row for; "none": metadata without component_type
CTypes == Components \cup SourceNodes \cup SinkNodes \cup ProbeNodes \cup {"Widget", "none"}

\* how a method is declared: absent, @classmethod, plain function, @staticmethod, a class attribute that is
\* not a function at all, a @classmethod inherited from a base class
Decls == {"absent", "cm", "plain", "static", "attr", "inh"}
IsCM(x) == x \in {"cm", "inh"}
\* what a *_data_type classmethod returns
Rets == {"type", "none", "str", "raises"}
\* shape of what _define_metadata / get_metadata give
MdShapes == {"dict", "list", "raises", "absent"}
\* metadata value of input_data_type / output_data_type ("absent": key not present)
\* ("null": the key is present and holds None -- present for the category rules, equal to an absent key for md.get comparisons)
TypeNames == {"absent", "null", "NoDataType", "F", "G"}
Got(x) == IF x = "null" THEN "absent" ELSE x
\* metadata value of `parameters`
ParamVals == {"absent", "empty", "dict", "list", "null", "strNone", "strnone", "int", "tuple", "emptystr"}
ParamOK(p) == p \in {"absent", "empty", "dict", "list", "null", "strNone"}
\* metadata value of injected_context_keys / suppressed_context_keys
KeyVals == {"absent", "empty", "ab", "bc", "dup", "nonstr", "tuple", "str", "null", "int", "nested"}
KeysOK(k) == k \in {"absent", "empty", "ab", "bc"}
\* set(v) raises TypeError
NotSettable(k) == k \in {"null", "int", "nested"}
Members(k) == CASE k \in {"ab", "tuple"} -> {"a", "b"}
                [] k = "bc" -> {"b", "c"}
                [] k = "dup" -> {"a"}
                [] k = "nonstr" -> {"a", "1"}
                [] k = "str" -> {"a", "b"}          \* the string "ab": set("ab")
                [] OTHER -> {}
\* signature of _process_logic
Sigs == {"absent", "clean", "ctxname", "ctxann", "ctxstr", "ctxopt", "kwctx", "sigattr", "cmctx", "selfonly"}
SigBad(s) == s \in {"ctxname", "ctxann", "ctxstr", "ctxopt", "kwctx", "sigattr", "cmctx"}
\* docstring: none, short, exactly the limit, limit + 1, much longer, long only before indentation is cleaned
Docs == {"none", "short", "at", "over", "long", "indent"}
\* the processor attribute of a node class: none, an object without the method, the method not a classmethod,
\* a classmethod giving F / G, a classmethod that raises
Procs == {"none", "bare", "plain", "F", "G", "raises"}
\* registration: not registered, through the metaclass, by hand, registered under ANOTHER category
Regs == {"no", "meta", "manual", "other"}

\* A descriptor is a record with the fields
\*   ct : CTypes, inD, outD : Decls, inR, outR : Rets, xPlain : 0..2, xCM : BOOLEAN, f1, f2 : {"absent", "cm", "plain"},
\*   defMd, getMd : MdShapes, mCls, mDoc : BOOLEAN, mdIn, mdOut : TypeNames, params : ParamVals, inj, sup : KeyVals,
\*   reg : Regs, own : BOOLEAN, sig : Sigs, doc : Docs, lim : {"default", "ten"}, proc : Procs
\* (the set of all of them has about 10^14 members and is never built: MC_Contracts.tla defines the families explored)

-----------------------------------------------------------------------------
HasMd(d) == d.getMd = "dict"
Ct(d) == IF HasMd(d) THEN d.ct ELSE "nomd"

If(c, s) == IF c THEN s ELSE <<>>
Rep(n, x) == [i \in 1..n |-> x]

R001(d) == If(d.inD # "absent" /\ ~IsCM(d.inD), <<"SVA001">>)
R002(d) == If(d.outD # "absent" /\ ~IsCM(d.outD), <<"SVA002">>)
R003(d) == Rep(d.xPlain, "SVA003")
R004(d) == If(IsCM(d.inD) /\ d.inR # "type", <<"SVA004">>) \o If(IsCM(d.outD) /\ d.outR # "type", <<"SVA004">>)
\* functional methods of the four IO categories must be classmethods (first: _get_data ..., second: get_data ...)
RIO(d, cat, c1, c2) == If(Ct(d) = cat /\ d.f1 = "plain", <<c1>>) \o If(Ct(d) = cat /\ d.f2 = "plain", <<c2>>)
R100(d) == If(d.defMd # "dict", <<"SVA100">>) \o If(d.getMd # "dict", <<"SVA100">>)
R101(d) == If(HasMd(d) /\ (d.mCls \/ d.mDoc \/ d.ct = "none"), <<"SVA101">>)
DocLen(d) == CASE d.doc = "none" -> 0 [] d.doc = "short" -> 20
               [] d.doc = "at" -> IF d.lim = "ten" THEN 10 ELSE 600
               [] d.doc = "over" -> IF d.lim = "ten" THEN 11 ELSE 601
               [] d.doc = "long" -> 2000
               [] d.doc = "indent" -> 9          \* many indented lines of spaces, 9 characters once cleaned
Limit(d) == IF d.lim = "ten" THEN 10 ELSE 600
R102(d) == If(DocLen(d) > Limit(d), <<"SVA102">>)
R103(d) == If(HasMd(d) /\ ~ParamOK(d.params), <<"SVA103">>)
R104(d) == If(HasMd(d) /\ ~KeysOK(d.inj), <<"SVA104">>)
R105(d) == If(HasMd(d) /\ ~KeysOK(d.sup), <<"SVA105">>)
BothKeys(d) == HasMd(d) /\ d.inj # "absent" /\ d.sup # "absent"
R106(d) == If(BothKeys(d) /\ Members(d.inj) \cap Members(d.sup) # {}, <<"SVA106">>)
\* deviations ParamsRuleRaises (SVA103 comes first in catalogue order) and OverlapRuleRaises
Raises(d) == IF HasMd(d) /\ ~ParamOK(d.params) THEN "IndexError"
             ELSE IF BothKeys(d) /\ (NotSettable(d.inj) \/ NotSettable(d.sup)) THEN "TypeError"
             \* ... and it SORTS the overlap: members of different types (a string and a number) cannot be ordered
             ELSE IF BothKeys(d) /\ {"a", "1"} \subseteq (Members(d.inj) \cap Members(d.sup)) THEN "TypeError"
             ELSE "none"
Crash(d) == Raises(d) # "none"
Registered(d) == d.reg \in {"meta", "manual"} /\ d.ct # "none"
R107(d) == If(HasMd(d) /\ ~Registered(d), <<"SVA107">>)
R200(d) == If(Ct(d) \in {"DataSource", "PayloadSource"} /\ d.mdOut = "absent", <<"SVA200">>)
R201(d) == If(Ct(d) \in {"DataSource", "PayloadSource"} /\ d.mdIn # "absent", <<"SVA201">>)
R210(d) == If(Ct(d) \in {"DataSink", "PayloadSink"} /\ d.mdIn = "absent", <<"SVA210">>)
R211(d) == If(Ct(d) \in {"DataSink", "PayloadSink"} /\ d.mdOut # "absent", <<"SVA211">>)
R220(d) == If(Ct(d) = "DataOperation" /\ (d.mdIn = "absent" \/ d.mdOut = "absent"), <<"SVA220">>)
\* deviation ParamsReportedAs103
R221(d) == If(Ct(d) = "DataOperation", R103(d))
R230(d) == If(Ct(d) = "DataProbe" /\ d.mdIn = "absent", <<"SVA230">>)
R231(d) == If(Ct(d) = "DataProbe" /\ d.mdOut # "absent", <<"SVA231">>)
R232(d) == If(Ct(d) = "DataProbe", R103(d))
R241(d) == If(Ct(d) = "ContextProcessor" /\ d.own, <<"SVA241">>)
R250(d) == If(Ct(d) \in {"DataOperation", "DataProbe", "ContextProcessor"} /\ SigBad(d.sig), <<"SVA250">>)
\* node rules compare md.get(key): the value None (key absent, or present and null) is a value like any other
ProcGives(d) == d.proc \in {"F", "G"}
R300(d) == If(Ct(d) \in SourceNodes /\ d.mdIn # "NoDataType", <<"SVA300">>)
R301(d) == If(Ct(d) \in SourceNodes /\ ProcGives(d) /\ d.mdOut # d.proc, <<"SVA301">>)
R310(d) == If(Ct(d) \in SinkNodes /\ Got(d.mdIn) # Got(d.mdOut), <<"SVA310">>)
R311(d) == If(Ct(d) \in SinkNodes /\ ProcGives(d) /\ (d.mdIn # d.proc \/ d.mdOut # d.proc), <<"SVA311">>)
R320(d) == If(Ct(d) \in ProbeNodes /\ Got(d.mdIn) # Got(d.mdOut), <<"SVA320">>)
R321(d) == If(Ct(d) \in ProbeNodes /\ ProcGives(d) /\ (d.mdIn # d.proc \/ d.mdOut # d.proc), <<"SVA321">>)

\* catalogue order
Diags(d) == R001(d) \o R002(d) \o R003(d) \o R004(d)
            \o RIO(d, "DataSource", "SVA005", "SVA006") \o RIO(d, "PayloadSource", "SVA007", "SVA008")
            \o RIO(d, "DataSink", "SVA009", "SVA010") \o RIO(d, "PayloadSink", "SVA011", "SVA012")
            \o R100(d) \o R101(d) \o R102(d) \o R103(d) \o R104(d) \o R105(d) \o R106(d) \o R107(d)
            \o R200(d) \o R201(d) \o R210(d) \o R211(d) \o R220(d) \o R221(d) \o R230(d) \o R231(d) \o R232(d)
            \o R241(d) \o R250(d) \o R300(d) \o R301(d) \o R310(d) \o R311(d) \o R320(d) \o R321(d)

Warnings == {"SVA102", "SVA106", "SVA201", "SVA211", "SVA231"}
Sev(c) == IF c \in Warnings THEN "warn" ELSE "error"
Range(s) == {s[i] : i \in DOMAIN s}
Errors(d) == Range(Diags(d)) \ Warnings
\* `semantiva dev lint`: configuration-error status iff some error-level diagnostic; warnings do not count
LintFails(ds) == \E d \in ds : Errors(d) # {}

-----------------------------------------------------------------------------
(* The positive definition: what the guides ask of a component of each category. *)
DeclOK(x) == x = "absent" \/ IsCM(x)
MethodsOK(d) == /\ DeclOK(d.inD) /\ DeclOK(d.outD) /\ d.xPlain = 0
                /\ (IsCM(d.inD) => d.inR = "type") /\ (IsCM(d.outD) => d.outR = "type")
MetadataOK(d) == /\ d.defMd = "dict" /\ d.getMd = "dict"
                 /\ ~d.mCls /\ ~d.mDoc /\ d.ct # "none"
                 /\ KeysOK(d.inj) /\ KeysOK(d.sup) /\ ParamOK(d.params)
                 /\ Registered(d)
CategoryOK(d) ==
    CASE d.ct \in {"DataSource", "PayloadSource"} -> d.mdOut # "absent" /\ d.f1 # "plain" /\ d.f2 # "plain"
      [] d.ct \in {"DataSink", "PayloadSink"} -> d.mdIn # "absent" /\ d.f1 # "plain" /\ d.f2 # "plain"
      [] d.ct = "DataOperation" -> d.mdIn # "absent" /\ d.mdOut # "absent" /\ ~SigBad(d.sig)
      [] d.ct = "DataProbe" -> d.mdIn # "absent" /\ ~SigBad(d.sig)
      [] d.ct = "ContextProcessor" -> ~d.own /\ ~SigBad(d.sig)
      [] d.ct \in SourceNodes -> d.mdIn = "NoDataType" /\ (ProcGives(d) => d.mdOut = d.proc)
      [] d.ct \in SinkNodes \cup ProbeNodes -> Got(d.mdIn) = Got(d.mdOut) /\ (ProcGives(d) => (d.mdIn = d.proc /\ d.mdOut = d.proc))
      [] OTHER -> TRUE
WellFormed(d) == MethodsOK(d) /\ MetadataOK(d) /\ CategoryOK(d)

-----------------------------------------------------------------------------
CONSTANT Family          \* the descriptors explored: a sequence of sets of descriptors
VARIABLES d, done
vars == <<d, done>>

Init == (\E i \in DOMAIN Family : d \in Family[i]) /\ done = FALSE
Next == \/ done = FALSE /\ done' = TRUE /\ UNCHANGED d
        \/ done /\ UNCHANGED vars
Spec == Init /\ [][Next]_vars

\* Two formulations of "passes": no error-level diagnostic  <=>  well-formed (unless the validator itself raises)
NoErrorIffWellFormed == ~Crash(d) => ((Errors(d) = {}) <=> WellFormed(d))
\* the crash deviations only ever hide a class that SVA103 / SVA104 / SVA105 would have reported
CrashOnlyOnBadKeys == Crash(d) => (~KeysOK(d.inj) \/ ~KeysOK(d.sup) \/ ~ParamOK(d.params))
\* a diagnostic is reported at most twice (SVA100, SVA004, SVA003: once per method; SVA103 with its category twin)
Multiplicity == \A c \in Range(Diags(d)) : Cardinality({i \in DOMAIN Diags(d) : Diags(d)[i] = c}) <= 2
\* category rules never fire for a class without usable metadata
NoMdOnlyStructural == ~HasMd(d) => Range(Diags(d)) \subseteq {"SVA001", "SVA002", "SVA003", "SVA004", "SVA100", "SVA102"}
\* warnings alone never fail the lint
WarningsDoNotFail == (Range(Diags(d)) \subseteq Warnings) => ~LintFails({d})
=============================================================================
