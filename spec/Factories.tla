------------------------------ MODULE Factories ------------------------------
(***************************************************************************)
(* The class-generating factories (_pipeline_node_factory,                 *)
(* _IOOperationFactory, slicer / sweep / rename / delete / template        *)
(* factories) as a typing table over node configurations: what the         *)
(* generated NODE class must declare given the processor it wraps.         *)
(* A configuration is a Library node record; nesting is expressed by the   *)
(* kind (Slice* = slicer around an operation / probe, Sweep* = sweep       *)
(* wrapper around a source / operation, behind the IO adapter for sources).*)
(*   WrapperMirrorsProcessor: sources take no data; sinks, probes and      *)
(*   context processors pass their input type through; operations expose   *)
(*   the processor's types; sweep wrappers produce the collection and      *)
(*   publish <var>_values; created / suppressed keys mirror the processor. *)
(***************************************************************************)
EXTENDS Library, Json

CONSTANTS Configs
VARIABLE n
Init == n \in Configs
Next == UNCHANGED n
Spec == Init /\ [][Next]_n

NodeIn == IF n.kind \in SourceKinds THEN "none" ELSE InT(n)
NodeOut == IF OutT(n) = "same" THEN NodeIn ELSE OutT(n)

SourcesTakeNoData == n.kind \in SourceKinds => NodeIn = "none" /\ NodeOut \in {"float", "coll"}
PassThrough == n.kind \in PassKinds => NodeOut = NodeIn
SweepsPublish == n.kind \in SweepKinds => "t_values" \in Created(n) /\ NodeOut = "coll"
SlicersMapCollections == n.kind \in {"SliceMul", "SliceMulDef", "SliceProbe"} => NodeIn = "coll" /\ NodeOut = "coll"
ProbesCreateTheirKey == n.kind \in ProbeKinds /\ n.k1 # "" => Created(n) = {n.k1}
ContextProcessorsDeclare == n.kind \in CtxKinds => NodeIn = "any" /\ (Suppressed(n) # {} <=> n.kind \in {"Rename", "Delete"})

Case == [node |-> n, in |-> NodeIn, out |-> NodeOut, created |-> Created(n), suppressed |-> Suppressed(n),
         params |-> ParamNames(n), constructible |-> Constructible(n)]
EmitInv == PrintT(ToJson(Case))
=============================================================================
