------------------------------ MODULE JobQueue ------------------------------
(***************************************************************************)
(* QueueSemantivaOrchestrator (master) + worker_loop over the in-memory    *)
(* transport.  One action per critical section:                            *)
(*   Enqueue(j)        enqueue(): create Future, put job on the FIFO       *)
(*   MasterPublish     run_forever publish phase: job_queue.get ->         *)
(*                     transport.publish("jobs.<id>.cfg")                  *)
(*   WorkerTake(w)     worker subscription pops a jobs.*.cfg message       *)
(*   WorkerRunOk(w)    pipeline.process succeeded -> publish status        *)
(*   WorkerRunFail(w)  pipeline raised.  ReportFailures = TRUE: publish an *)
(*                     error status (repaired code); FALSE: only log it    *)
(*                     (pinned tree) -- the Future then never completes    *)
(*   MasterResolve     listen phase: pop one jobs.*.status message and     *)
(*                     complete the matching Future                        *)
(*   WorkerExit(w)     a worker whose stop event is set leaves its loop.   *)
(*                     StopBetweenJobs: only with no job in hand (the loop *)
(*                     looks at the event after its subscription is        *)
(*                     drained, never between taking a message and running *)
(*                     it); ExitMayDropJob = TRUE models a worker that      *)
(*                     checks the event right after taking a message.       *)
(*   WorkerStart(w)    a (re)started worker joins the same transport        *)
(* Job j's pipeline outcome is outcome[j] \in {"ok", "fail"}; its result   *)
(* is the symbolic value <<"result", j>> (the harness compares real        *)
(* results with direct execution).                                         *)
(***************************************************************************)
EXTENDS Integers, Sequences, FiniteSets, TLC

CONSTANTS Jobs, Workers, Outcomes, ReportFailures,  \* Outcomes: set of functions Jobs -> {"ok","fail"}
          ExitMayDropJob                            \* sensitivity switch (FALSE = the code's StopBetweenJobs)

VARIABLES jobq,       \* master's FIFO of enqueued, not yet published jobs
          enqueued,   \* set of jobs ever enqueued
          cfgChan,    \* jobs.*.cfg messages in flight (sequence, FIFO per transport)
          statusChan, \* jobs.*.status messages in flight: <<j, kind>>
          busy,       \* worker -> job or 0
          future,     \* job -> <<"none",0>> | <<"pending",0>> | <<"result", j>> | <<"error", j>>
          sets,       \* job -> number of times its Future was completed
          outcome,    \* job -> "ok" | "fail": what the job's pipeline does (fixed at Init)
          alive       \* worker -> "new" (not started yet: a late joiner) | "on" (loop running) | "off" (left its loop)
vars == <<jobq, enqueued, cfgChan, statusChan, busy, future, sets, outcome, alive>>

Init == /\ jobq = <<>> /\ enqueued = {} /\ cfgChan = <<>> /\ statusChan = <<>>
        /\ busy = [w \in Workers |-> 0]
        /\ future = [j \in Jobs |-> <<"none", 0>>] /\ sets = [j \in Jobs |-> 0]
        /\ outcome \in Outcomes
        /\ alive \in {f \in [Workers -> {"new", "on"}] : \E w \in Workers : f[w] = "on"}

Enqueue(j) == /\ j \notin enqueued
              /\ enqueued' = enqueued \cup {j} /\ jobq' = Append(jobq, j)
              /\ future' = [future EXCEPT ![j] = <<"pending", 0>>]
              /\ UNCHANGED <<cfgChan, statusChan, busy, sets, outcome, alive>>
MasterPublish == /\ jobq # <<>>
                 /\ cfgChan' = Append(cfgChan, Head(jobq)) /\ jobq' = Tail(jobq)
                 /\ UNCHANGED <<enqueued, statusChan, busy, future, sets, outcome, alive>>
\* a worker scans per-job channels; any in-flight cfg message may be the one it finds first
WorkerTake(w) == /\ busy[w] = 0 /\ alive[w] = "on"
                 /\ \E i \in 1..Len(cfgChan) :
                      /\ busy' = [busy EXCEPT ![w] = cfgChan[i]]
                      /\ cfgChan' = [k \in 1..(Len(cfgChan) - 1) |-> IF k < i THEN cfgChan[k] ELSE cfgChan[k + 1]]
                 /\ UNCHANGED <<jobq, enqueued, statusChan, future, sets, outcome, alive>>
WorkerRunOk(w) == /\ busy[w] # 0 /\ outcome[busy[w]] = "ok"
                  /\ statusChan' = Append(statusChan, <<busy[w], "result">>)
                  /\ busy' = [busy EXCEPT ![w] = 0]
                  /\ UNCHANGED <<jobq, enqueued, cfgChan, future, sets, outcome, alive>>
WorkerRunFail(w) == /\ busy[w] # 0 /\ outcome[busy[w]] = "fail"
                    /\ statusChan' = IF ReportFailures THEN Append(statusChan, <<busy[w], "error">>) ELSE statusChan
                    /\ busy' = [busy EXCEPT ![w] = 0]
                    /\ UNCHANGED <<jobq, enqueued, cfgChan, future, sets, outcome, alive>>
MasterResolve == /\ \E i \in 1..Len(statusChan) :
                      LET m == statusChan[i] j == m[1] IN
                      /\ statusChan' = [k \in 1..(Len(statusChan) - 1) |-> IF k < i THEN statusChan[k] ELSE statusChan[k + 1]]
                      /\ IF future[j] = <<"pending", 0>>
                         THEN /\ future' = [future EXCEPT ![j] = <<m[2], j>>]
                              /\ sets' = [sets EXCEPT ![j] = @ + 1]
                         ELSE UNCHANGED <<future, sets>>
                 /\ UNCHANGED <<jobq, enqueued, cfgChan, busy, outcome, alive>>

\* one worker is stopped / recycled while the queue keeps running (some other worker stays)
WorkerExit(w) == /\ alive[w] = "on" /\ \E v \in Workers \ {w} : alive[v] = "on"
                 /\ (busy[w] = 0 \/ ExitMayDropJob)
                 /\ alive' = [alive EXCEPT ![w] = "off"] /\ busy' = [busy EXCEPT ![w] = 0]
                 /\ UNCHANGED <<jobq, enqueued, cfgChan, statusChan, future, sets, outcome>>
WorkerStart(w) == /\ alive[w] = "new" /\ alive' = [alive EXCEPT ![w] = "on"]
                  /\ UNCHANGED <<jobq, enqueued, cfgChan, statusChan, busy, future, sets, outcome>>

Next == \/ \E j \in Jobs : Enqueue(j)
        \/ MasterPublish \/ MasterResolve
        \/ \E w \in Workers : WorkerTake(w) \/ WorkerRunOk(w) \/ WorkerRunFail(w) \/ WorkerExit(w) \/ WorkerStart(w)
Fairness == /\ WF_vars(MasterPublish) /\ WF_vars(MasterResolve)
            /\ \A w \in Workers : WF_vars(WorkerTake(w)) /\ WF_vars(WorkerRunOk(w)) /\ WF_vars(WorkerRunFail(w))
Spec == Init /\ [][Next]_vars /\ Fairness

Done(j) == future[j][1] \notin {"none", "pending"}
ResolveOnce == \A j \in Jobs : sets[j] <= 1
StickyFuture == [][\A j \in Jobs : Done(j) => future'[j] = future[j]]_vars
OwnResult == \A j \in Jobs : Done(j) =>
                 future[j] = <<IF outcome[j] = "ok" THEN "result" ELSE "error", j>>
\* each job is in exactly one place: not yet enqueued, master FIFO, cfg in flight, a worker,
\* status in flight, or resolved (no loss, no duplication)
InSeq(s, j) == \E i \in 1..Len(s) : s[i] = j
Places(j) == (IF j \notin enqueued THEN 1 ELSE 0)
             + Cardinality({i \in 1..Len(jobq) : jobq[i] = j})
             + Cardinality({i \in 1..Len(cfgChan) : cfgChan[i] = j})
             + Cardinality({w \in Workers : busy[w] = j})
             + Cardinality({i \in 1..Len(statusChan) : statusChan[i][1] = j})
             + (IF Done(j) THEN 1 ELSE 0)
Conservation == ReportFailures => \A j \in Jobs : Places(j) = 1
EveryFutureCompletes == \A j \in Jobs : (j \in enqueued) ~> Done(j)
=============================================================================
