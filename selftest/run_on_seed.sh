#!/bin/sh
# Run a check against a scratch worktree with a seeded patch applied, without touching /repo:
#   selftest/run_on_seed.sh <seed dir name> <check id> [tier]
# (semantiva is imported from the worktree because PYTHONPATH precedes the editable install)
HERE="$(cd "$(dirname "$0")/.." && pwd)"
WT="${SEEDWT:-/var/tmp/seedtest}"
[ -d "$WT" ] || git -C /repo worktree add --detach "$WT" HEAD >/dev/null 2>&1
cd "$WT" && git checkout -q --detach "$(git -C /repo rev-parse HEAD)" && git checkout -q -- . && git clean -fdq
git apply "$HERE/seeded/$1/patch.diff" || { echo "patch does not apply"; exit 2; }
# evidence and replay files of a seeded run go to a scratch directory, not to /verif/evidence
EV="${WT}-evidence"; mkdir -p "$EV/replays"
cd "$HERE" && VERIF_EVIDENCE_DIR="$EV" PYTHONPATH="$WT" ./check "$2" --tier "${3:-quick}"; rc=$?
cd "$WT" && git checkout -q -- .
exit $rc
