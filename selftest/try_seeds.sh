#!/bin/sh
# selftest/try_seeds.sh <seed> [check]   -> one line: CAUGHT / MISSED (first witness)
HERE="$(cd "$(dirname "$0")/.." && pwd)"
s="$1"; c="${2:-$(echo $1 | cut -c1-3)}"
out=$("$HERE/selftest/run_on_seed.sh" "$s" "$c" 2>&1 | grep -v KNOWN-FINDING)
if echo "$out" | grep -q "^VIOLATION"; then echo "$s CAUGHT by $c: $(echo "$out" | grep -m1 'witness:' | cut -c1-150)"; 
elif echo "$out" | grep -q "MACHINERY\|does not apply"; then echo "$s ERROR: $(echo "$out" | grep -m1 'MACHINERY\|does not apply' | cut -c1-200)";
else echo "$s MISSED by $c"; fi
