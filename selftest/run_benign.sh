#!/bin/sh
# False-alarm self-test: apply each behaviour-preserving patch (selftest/benign/benign_k.diff, written by an
# independent sub-agent that saw only the property texts) in a scratch worktree and run every quick check
# against it.  Every check must exit 0.   Usage: selftest/run_benign.sh [k ...] [-- check ...]
HERE="$(cd "$(dirname "$0")/.." && pwd)"
WT=/var/tmp/benigntest
ks=""; checks=""
while [ $# -gt 0 ]; do case "$1" in --) shift; checks="$*"; break;; *) ks="$ks $1"; shift;; esac; done
[ -z "$ks" ] && ks="1 2 3 4 5 6 7 8"
[ -z "$checks" ] && checks="C01 C02 C03 C04 C05 C06 C07 C08 C09 C10 C11 C12 C13 C14 C15 C16 C17 C18"
[ -d "$WT" ] || git -C /repo worktree add --detach "$WT" HEAD >/dev/null 2>&1
mkdir -p /var/tmp/benign-evidence/replays
bad=0
for k in $ks; do
  cd "$WT" && git checkout -q --detach "$(git -C /repo rev-parse HEAD)" && git checkout -q -- . && git clean -fdq
  git apply "$HERE/selftest/benign/benign_$k.diff" || { echo "benign_$k: patch does not apply"; bad=1; continue; }
  for c in $checks; do
    cd "$HERE" && VERIF_EVIDENCE_DIR=/var/tmp/benign-evidence PYTHONPATH="$WT" ./check "$c" > /var/tmp/benign-evidence/out.txt 2>&1; rc=$?
    echo "benign_$k $c rc=$rc $(grep -c '^VIOLATION' /var/tmp/benign-evidence/out.txt) violation lines"
    if [ $rc -ne 0 ]; then bad=1; grep -A2 "^VIOLATION\|MACHINERY" /var/tmp/benign-evidence/out.txt | head -12; fi
  done
done
cd "$WT" && git checkout -q -- .
git -C /repo worktree remove --force "$WT" >/dev/null 2>&1
exit $bad
