#!/bin/sh
# Machinery self-test: every seeded change must make its check exit 1 (run against a scratch worktree,
# /repo is never touched). Usage: selftest/selftest.sh [seed dirs...]
HERE="$(cd "$(dirname "$0")/.." && pwd)"
cd "$HERE"
seeds="$@"; [ -z "$seeds" ] && seeds=$(ls seeded)
fail=0
for s in $seeds; do
  chk=$(python3 -c "import json,sys;print(json.load(open('seeded/$s/meta.json')).get('check','$s'[:3]))" 2>/dev/null || echo "$(echo $s | cut -c1-3)")
  out=$(selftest/run_on_seed.sh "$s" "$chk" quick 2>&1); rc=$?
  n=$(echo "$out" | grep -c "^VIOLATION")
  if [ $rc -eq 1 ] && [ $n -gt 0 ]; then echo "ok   $s -> $chk exit 1 ($n violation lines)"; else echo "MISS $s -> $chk exit $rc"; fail=1; fi
done
exit $fail
