#!/usr/bin/env python3
"""Write seeded/<id>/meta.json from verify.json (independent confirmation), NOTES.md and the table below."""
import json, os, re
HERE = os.path.dirname(os.path.dirname(os.path.abspath(__file__)))
NEEDS = {
 "C01": "two different generated slicer/sweep processors in one process and a parameter that reaches the 'default' placement",
 "C02": "delete:x (or rename:x:y) followed by a node that both reads and re-creates x",
 "C03": "two ranges with equal scale/lo/hi/steps but different endpoint expanded in one process",
 "C04": "two sweep definitions equal up to int/float spelling of numbers built in one interpreter, compared with a fresh process",
 "C05": "a sweep expression nesting + directly inside * (or the reverse) and a mutation of the inner operator",
 "C06": "a run failing on an unresolvable parameter, with the SER validated against the registry schema",
 "C07": "a falsy context value (0, 0.0, False, '') overriding a parameter that has a signature default",
 "C08": "two blocks reading the same source file with the same select but different rename",
 "C09": "a traced launch whose first run (index 0) fails",
 "C10": "a preceding run in the same process that left one of the new run's initial context keys with another value",
 "C11": "a whitelisted function name used as a value (non-callee Name) without being a declared variable",
 "C12": "the same operand (after normalisation) twice in one + or * chain",
 "C13": "a pipeline_end ingested before any other record of its run (true permutation or subset)",
 "C14": "an exact-pattern subscriber on a channel that does not exist yet, concurrent with its first publisher, preempted at the factory line",
 "C15": "a wildcard scan landing between publish()'s entry creation and its append (two-thread interleaving)",
 "C16": "a second generated class with the same (component type, module, qualname) in one process",
 "C17": "a YAML run_space block that spells out max_runs / dry_run and a CLI flag asking for something different",
 "C18": "an executor that outlives a single run (reused Pipeline, launch, queue worker)",
}
CAUGHT = {
 "C15": "C14 quick and C15 quick (after adding random line-boundary yields to C15)",
 "C05": "C05 quick (after adding + <-> * expression mutations) and C12 quick",
}
STRENGTHENED = {"C03", "C04", "C05", "C07", "C08", "C15", "C17"}
for pid in sorted(os.listdir(os.path.join(HERE, "seeded"))):
    d = os.path.join(HERE, "seeded", pid)
    vf = os.path.join(d, "verify.json")
    ver = json.load(open(vf)) if os.path.exists(vf) else {}
    notes = open(os.path.join(d, "NOTES.md")).read() if os.path.exists(os.path.join(d, "NOTES.md")) else ""
    first = next((l.strip() for l in notes.splitlines() if l.strip() and not l.startswith("#")), "")
    meta = {
        "property": pid,
        "origin": "fresh sub-agent given only the property text and a scratch worktree" + (" (plus the note that registry growth is already known)" if pid == "C18" else ""),
        "summary": first[:300],
        "needs_to_manifest": NEEDS.get(pid, ""),
        "confirmed_by": "selftest/verify_seeds.sh in a scratch worktree of /repo HEAD under /var/tmp",
        "patch_applies_to_current_head": ver.get("applies"),
        "demo_exit_without_change": ver.get("demo_exit_without_change"),
        "demo_exit_with_change": ver.get("demo_exit_with_change"),
        "existing_tests_with_change": ver.get("tests_with_change"),
        "ran": [f"git -C /repo apply seeded/{pid}/patch.diff", f"./check {pid} --tier quick   (exit 1, VIOLATION lines)", "git -C /repo checkout -- ."],
        "caught_by": CAUGHT.get(pid, f"{pid} quick"),
        "check_strengthened_to_catch_it": pid in STRENGTHENED,
    }
    json.dump(meta, open(os.path.join(d, "meta.json"), "w"), indent=1)
    print(pid, ver.get("demo_exit_without_change"), ver.get("demo_exit_with_change"), (ver.get("tests_with_change") or "")[-12:])
