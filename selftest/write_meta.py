#!/usr/bin/env python3
"""Write seeded/<id>/meta.json from verify.json (independent confirmation), NOTES.md and the table below."""
import json, os, re
HERE = os.path.dirname(os.path.dirname(os.path.abspath(__file__)))
NEEDS = {
 "C01": "two different generated slicer/sweep processors in one process and a parameter that reaches the 'default' placement",
 "C02": "delete:x (or rename:x:y) followed by a node that both reads and re-creates x",
 "C03": "two ranges with equal scale/lo/hi/steps but different endpoint expanded in one process",
 "C04": "two sweep definitions equal up to int/float spelling of numbers built in one interpreter, compared with a fresh process",
 "C05": "a sweep expression nesting + directly inside * (or the reverse) and a mutation of the inner operator",
 "C06": "a run failing on an unresolvable parameter, with the SER validated against the registry schema",
 "C07": "a falsy context value (0, 0.0, False, '') overriding a parameter that has a signature default",
 "C08": "two blocks reading the same source file with the same select but different rename",
 "C09": "a traced launch whose first run (index 0) fails",
 "C10": "a preceding run in the same process that left one of the new run's initial context keys with another value",
 "C11": "a whitelisted function name used as a value (non-callee Name) without being a declared variable",
 "C12": "the same operand (after normalisation) twice in one + or * chain",
 "C13": "a pipeline_end ingested before any other record of its run (true permutation or subset)",
 "C14": "an exact-pattern subscriber on a channel that does not exist yet, concurrent with its first publisher, preempted at the factory line",
 "C15": "a wildcard scan landing between publish()'s entry creation and its append (two-thread interleaving)",
 "C16": "a second generated class with the same (component type, module, qualname) in one process",
 "C17": "a YAML run_space block that spells out max_runs / dry_run and a CLI flag asking for something different",
 "C18": "an executor that outlives a single run (reused Pipeline, launch, queue worker)",
}
NEEDS.update({
 "C01b": "same idea as C01 (defaults memoised by module.qualname), found independently in round 2",
 "C02b": "[default-use, require, delete:k] or [require, delete:k, default-use, re-create k]: the deleted-key test evaluated at end of pipeline",
 "C03b": "combinatorial sweep with a from_context variable whose name sorts before a static variable, both with more than one value",
 "C04b": "two combinatorial sweeps differing only in `broadcast` built in one interpreter (class cache keyed by the effective flag)",
 "C05b": "sweep value lists equal under == but of different type ([1,2] vs [1.0,2.0], [0,1] vs [False,True]) built in one process",
 "C06b": "a run failing on an unresolvable parameter: parameter_sources gets the value 'required', not allowed by the SER schema",
 "C07b": "a context key holding None for a parameter that has a signature default",
 "C08b": "a source column renamed onto the name of another selected column that is not itself renamed",
 "C09b": "a traced launch with --run-space-attempt >= 2 (run_space_end always stamped attempt 1)",
 "C10b": "one orchestrator object shared by several Pipelines with different sweeps of the same kind",
 "C11b": "the same expression text compiled first with a larger variable set, then with a smaller one, on one evaluator / via the sweep factory",
 "C13b": "run_space_end ingested while its launch has no run attached yet (ls, le, then the pipeline_start records)",
 "C12b": "a comparison in the expression: Compare.ops are dropped from the signature, so a<b and a>=b collide and the signature no longer rebuilds",
 "C14b": "a subscriber draining a channel to empty while a publisher has already fetched that channel's deque (entry removed on drain)",
 "C15b": "a pattern scan deleting an empty matching channel while publish() sits between entry creation and append; the job's completion message is lost and its Future never resolves",
 "C16b": "two generated classes with equal module.qualname registered in one process (registry de-duplicates by name, keeps the first)",
 "C17b": "--run-space-max-runs 0 (or max_runs: 0 in YAML) with a non-empty plan: `or 1000` swallows the zero cap",
 "C18b": "one orchestrator executing more than one run (reused Pipeline, launch): per-run processor instances retained by a memo keyed on the instance",
})
NEEDS.update({
 "C01c": "two template: shorthands with the same output key and different template strings resolved in one process (class memo keyed by class name)",
 "C02c": "a defaulted parameter whose key is required earlier/later and deleted after (or re-created after) the defaulted node: deleted-state read at end of pipeline",
 "C03c": "a sweep variable written {values: [x, y]} with exactly two numbers (silently becomes a 10-step range)",
 "C04c": "an earlier sweep in the same interpreter with ==-equal but differently typed values (class memo in preprocess_node_config)",
 "C05c": "two sweep expressions differing only in the multiplicity of an operand of one + or * chain (t vs t*t)",
 "C06c": "a run failing on an unresolvable parameter (parameter_sources value 'required')",
 "C07c": "a node whose only context effect is deleting keys (post_context digest copied from pre_context)",
 "C08c": "two blocks reading the same file with the same select, renaming the same column to different targets",
 "C09c": "a run_space block containing integral-valued floats (trace-side canonicaliser folds 2.0 to 2, inspect-side does not)",
 "C10c": "a traced sweep preceded in the same interpreter by a traced cosmetic twin (same semantic id, other spelling of the expression)",
 "C11c": "a pure-literal sweep expression containing a list/dict/set display, entering through the sweep factory",
 "C12c": "a subtraction whose right operand contains another subtraction: a - (b - c)",
 "C13c": "a partial run finalised more than once (problems list aliased into per-run state)",
 "C14c": "an exact-pattern subscriber iterating concurrently with the first publish to a not-yet-existing channel",
 "C15c": "a subscriber scan pruning a freshly created, still empty channel entry while publish() sits between the table lookup and q.append (the job or its status report is lost)",
 "C16c": "a plain component without a docstring wrapped in a source / sink / probe node",
 "C17c": "two generated processors with one class name and different parameters in one pipeline, the later needing an unsupplied key",
 "C18c": "jobs executed by the queue worker (one stdlib logger registered per job id)",
})
CAUGHT = {
 "C15": "C14 quick and C15 quick (after adding random line-boundary yields to C15)",
 "C05": "C05 quick (after adding + <-> * expression mutations) and C12 quick",
}
CAUGHT.update({"C07b": "C07 quick and C01 quick (after None-valued context entries were added to the model)"})
CAUGHT.update({"C17c": "C17 quick and C02 quick (after the strengthening noted)"})
STRENGTHENED = {"C03", "C04", "C05", "C07", "C08", "C15", "C17", "C05b", "C07b", "C10b", "C11b",
                "C08c", "C10c", "C11c", "C15c", "C16c", "C17c"}
def needs_from_notes(notes: str) -> str:
    """Round 4: the seeding agent's own statement of the condition (NOTES.md), first matching paragraph."""
    lines = [l.strip() for l in notes.splitlines() if l.strip()]
    for i, l in enumerate(lines):
        if re.search(r"condition|to manifest|manifests? (only )?(when|if)|needs", l, re.I) and not l.startswith("#") and len(l) > 40:
            return re.sub(r"[*`]", "", l)[:400]
        if re.search(r"^#+ .*(condition|manifest)", l, re.I) and i + 1 < len(lines):
            return re.sub(r"[*`]", "", " ".join(lines[i + 1:i + 4]))[:400]
    return re.sub(r"[*`]", "", lines[1] if len(lines) > 1 else "")[:400]


STRENGTHENED |= {"C01d", "C03e", "C04d", "C04e", "C05e", "C06e", "C08e", "C09d", "C10e", "C12e", "C16d", "C16e", "C17e", "C18d", "C18e"}
STRENGTHENED |= {"C03k", "C04j", "C06k", "C09j", "C09k", "C13k", "C15j", "C15k", "C17k", "C18k"}
CAUGHT.update({"C08k": "C17 quick (`exit-code:runspace_over_cap`: the change is in the CLI's merge of --run-space-max-runs)",
               "C12k": "C10 quick (`aliasing:config-edited-after-build`)"})
STRENGTHENED |= {"C01i", "C02i", "C03h", "C04i", "C05i", "C06h", "C07h", "C11i", "C12h", "C13h", "C14h", "C14i", "C15i", "C16h", "C17h", "C18h", "C18i"}
CAUGHT.update({"C06h": "C01 quick (`bystander-values:raises`: with the change every run whose context holds a numpy array fails, traced or not)",
               "C13h": "C09 quick (`launch-id`, `fk`: the producer writes a sanitised launch id into run_space_start/end only)",
               "C04h": "obsolete: after repo fix a18cf88 (null parameters block normalised in build_canonical_spec) the change no longer alters any identity; before the fix C04 quick reported the underlying defect itself (`cosmetic-changes-identity:EmptyParams`)"})
STRENGTHENED |= {"C02g", "C06f", "C07f", "C08f", "C08g", "C09f", "C09g", "C10g", "C12f", "C16g", "C17f", "C18g"}
CAUGHT.update({"C12f": "C10 quick (`aliasing:config-edited-after-build`, after the strengthening noted)"})
CAUGHT.update({"C10e": "C07 quick (as a false SER) and C10 quick (after the strengthening noted)",
               "C12e": "C04 quick and C12 quick (after the strengthening noted)"})
STRENGTHENED |= {"C06m", "C07m", "C08m", "C11l", "C11m", "C12l", "C13l", "C14l", "C14m", "C15l", "C15m", "C16l", "C17m", "C18m"}
STRENGTHENED |= {"C01n", "C01o", "C04n", "C04o", "C05n", "C05o", "C06o", "C08n", "C08o", "C09n", "C10n", "C11n", "C11o", "C12o", "C13n", "C13o", "C15o",
                 "C16n", "C16o", "C17n", "C17o"}
CAUGHT.update({"C03o": "NOT DECIDED: runs of one Pipeline object overlapping in time are outside C03's quantifier (DESIGN 9.39)",
               "C02p": "C02 quick and C01 quick (environment probe)"})
CAUGHT.update({"C03s": "NOT DECIDED: C03 demands that unequal by_position lengths are rejected, not that no element is evaluated before the rejection (DESIGN 9.396)",
               "C01s": "C01 quick (`Rename[a>b] ;; ctx=['addend']`: spec raises at node 1, code returned)", "C07r": "C07 quick (`param-missing:SliceMulDef.factor:default`, after TraceStream slice3 was added)",
               "C10r": "C10 quick (`reproducible:staged-run-metadata`)", "C10s": "C10 quick (`observational:hostile-payload:hash`, VRaise)", "C18r": "C18 quick (`container-growth:fresh:atexit.callbacks`, way fresh-traced-file)"})
CAUGHT.update({"C13u": "NOT DECIDED: a launch with attempt 0 cannot be produced by the runtime (the CLI rejects attempts below 1 and the pipeline_start schema requires run_space_attempt >= 1), so it is outside 'traces the runtime produced' (DESIGN 9.397)"})
STRENGTHENED |= {"C09u", "C14u", "C16t", "C16u", "C18u"}
STRENGTHENED |= {"C03r", "C04s", "C05s", "C06r", "C07r", "C09r", "C09s", "C10r", "C10s", "C14s", "C15r", "C18r"}
STRENGTHENED |= {"C01p", "C02p", "C03p", "C03q", "C04p", "C05p", "C05q", "C07p", "C08p", "C10p", "C10q", "C11p", "C11q", "C12p", "C13p", "C14p", "C15p", "C16p", "C16q", "C17p", "C18p"}
TRY_LOGS = ["/var/tmp/runlogs/try10a.log", "/var/tmp/runlogs/try10b.log", "/var/tmp/runlogs/try10c.log",
            "/var/tmp/runlogs/try11a.log", "/var/tmp/runlogs/try11b.log", "/var/tmp/runlogs/try11c.log", "/var/tmp/runlogs/try11d.log",
            "/var/tmp/runlogs/try12a.log", "/var/tmp/runlogs/try12b.log", "/var/tmp/runlogs/try12c.log", "/var/tmp/runlogs/try12d.log"]
for _lf in TRY_LOGS:
    if os.path.exists(_lf):
        for _l in open(_lf):
            _m = re.match(r"(C\d\d[pqrstu]) CAUGHT by (C\d\d):\s+witness: (.*)", _l)
            if _m and _m.group(1) not in CAUGHT:
                CAUGHT[_m.group(1)] = f"{_m.group(2)} quick (`{_m.group(3).strip()[:80]}`)"
for pid in sorted(os.listdir(os.path.join(HERE, "seeded"))):
    d = os.path.join(HERE, "seeded", pid)
    vf = os.path.join(d, "verify.json")
    ver = json.load(open(vf)) if os.path.exists(vf) else {}
    notes = open(os.path.join(d, "NOTES.md")).read() if os.path.exists(os.path.join(d, "NOTES.md")) else ""
    first = next((l.strip() for l in notes.splitlines() if l.strip() and not l.startswith("#")), "")
    meta = {
        "property": pid[:3],
        "check": pid[:3],
        "round": {"": 1, "b": 2, "c": 3, "d": 4, "e": 4, "f": 5, "g": 5, "h": 6, "i": 6, "j": 7, "k": 7, "l": 8, "m": 8, "n": 9, "o": 9, "p": 10, "q": 10, "r": 11, "s": 11, "t": 12, "u": 12}[pid[3:]],
        "origin": "fresh sub-agent given only the property text and a scratch worktree" + (" (plus the note that registry growth is already known)" if pid == "C18" else ""),
        "summary": first[:300],
        "needs_to_manifest": NEEDS.get(pid) or needs_from_notes(notes),
        "confirmed_by": "selftest/verify_seeds.sh in a scratch worktree of /repo HEAD under /var/tmp",
        "patch_applies_to_current_head": ver.get("applies"),
        "demo_exit_without_change": ver.get("demo_exit_without_change"),
        "demo_exit_with_change": ver.get("demo_exit_with_change"),
        "existing_tests_with_change": ver.get("tests_with_change"),
        "ran": [f"selftest/run_on_seed.sh {pid} {pid[:3]} quick   (patch applied in a scratch worktree, semantiva imported from it; exit 1, VIOLATION lines)"],
        "caught_by": CAUGHT.get(pid, f"{pid[:3]} quick"),
        "check_strengthened_to_catch_it": pid in STRENGTHENED,
    }
    json.dump(meta, open(os.path.join(d, "meta.json"), "w"), indent=1)
    print(pid, ver.get("demo_exit_without_change"), ver.get("demo_exit_with_change"), (ver.get("tests_with_change") or "")[-12:])
