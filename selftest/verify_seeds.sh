#!/bin/sh
# Confirm every seeded change independently: in a scratch worktree of /repo HEAD the patch applies, the
# existing test-suite still passes, the demonstration fails with the change and passes without it.
# Usage: selftest/verify_seeds.sh [ids...]   (writes seeded/<id>/verify.json)
HERE="$(cd "$(dirname "$0")/.." && pwd)"
WT=/var/tmp/seedverify-$$
ids="$@"; [ -z "$ids" ] && ids=$(ls "$HERE/seeded")
git -C /repo worktree add --detach "$WT" HEAD >/dev/null 2>&1 || exit 2
trap 'git -C /repo worktree remove --force "$WT" >/dev/null 2>&1' EXIT
for id in $ids; do
  d="$HERE/seeded/$id"; [ -f "$d/patch.diff" ] || continue
  cd "$WT" && git checkout -q -- . && git clean -fdq
  if ! git apply --check "$d/patch.diff" 2>/dev/null; then echo "{\"id\":\"$id\",\"applies\":false}" > "$d/verify.json"; echo "$id: patch does not apply"; continue; fi
  cp "$d/demo_$id.py" "$WT/" 
  base=$(echo "$id" | cut -c1-3)
  sed -i "s#/tmp/seed12-$base#$WT#g; s#/tmp/seed11-$base#$WT#g; s#/tmp/seed10-$base#$WT#g; s#/tmp/seed9-$base#$WT#g; s#/tmp/seed8-$base#$WT#g; s#/tmp/seed7-$base#$WT#g; s#/tmp/seed6-$base#$WT#g; s#/tmp/seed5-$base#$WT#g; s#/tmp/seed4-$base#$WT#g; s#/tmp/seed3-$base#$WT#g; s#/tmp/seed2-$base#$WT#g; s#/tmp/seed-$base#$WT#g" "$WT/demo_$id.py"
  PYTHONPATH="$WT" timeout 600 /venv/bin/python "demo_$id.py" >/dev/null 2>&1; clean=$?
  git apply "$d/patch.diff"
  PYTHONPATH="$WT" timeout 600 /venv/bin/python "demo_$id.py" >/dev/null 2>&1; broken=$?
  tests=$(PYTHONPATH="$WT" /venv/bin/python -m pytest -q -p no:cacheprovider --timeout=900 --deselect tests/test_export_ontology.py 2>&1 | tail -1)
  git apply -R "$d/patch.diff"
  echo "{\"id\":\"$id\",\"applies\":true,\"demo_exit_without_change\":$clean,\"demo_exit_with_change\":$broken,\"tests_with_change\":\"$tests\"}" > "$d/verify.json"
  echo "$id: demo clean=$clean broken=$broken tests: $tests"
done
