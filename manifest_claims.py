"""Claims added after the first batch (kept separate so tools_manifest.py stays short)."""
MORE = {
 "C13": ("Aggregator.tla / AggregatorTrace.tla",
         "Aggregator.tla (one action per _ingest_* method, Finalize a pure query) is explored by TLC over four record universes with StateIsFoldOfSet / PrefixVerdict / LaunchRollup as invariants, and the verdicts of every subset are emitted as an oracle table; real runtime records are ingested into the real TraceAggregator in every order (all 720 / 40320 orders of the 6- and 8-record universes, sampled beyond) with finalize twice after every ingest and compared with the table; recorded histories (prefixes, permutations, k-way interleavings, subsets of random real traces) are batch-validated by TLC.",
         "one SER per node, attempt = 1; launches emulated by driving RunSpaceTraceEmitter/Pipeline as cli._run does",
         "TLA+ spec + TLC (subset lattice exhaustive); permutation replay against TLC's oracle table; TLC trace validation of recorded aggregator histories"),
}
NA = {}
