"""Claims added after the first batch (kept separate so tools_manifest.py stays short)."""
MORE = {
 "C13": ("Aggregator.tla / AggregatorTrace.tla",
         "Aggregator.tla (one action per _ingest_* method, Finalize a pure query) is explored by TLC over four record universes with StateIsFoldOfSet / PrefixVerdict / LaunchRollup as invariants, and the verdicts of every subset are emitted as an oracle table; real runtime records are ingested into the real TraceAggregator in every order (all 720 / 40320 orders of the 6- and 8-record universes, sampled beyond) with finalize twice after every ingest and compared with the table; recorded histories (prefixes, permutations, k-way interleavings, subsets of random real traces) are batch-validated by TLC.",
         "one SER per node, attempt = 1; launches emulated by driving RunSpaceTraceEmitter/Pipeline as cli._run does",
         "TLA+ spec + TLC (subset lattice exhaustive); permutation replay against TLC's oracle table; TLC trace validation of recorded aggregator histories"),
 "C14": ("TransportImpl.tla (PlusCal) / Transport.tla / TransportTrace.tla",
         "TransportImpl.tla models publish() and the subscription iterator one label per source line with queue objects in a heap (orphaned deques are expressible); TLC explores all interleavings of 2-3 publishers, 0-1 concurrent subscribers and the drainer with NoLoss/NoDup/PublisherChannelFifo/MatchOnly, and the unsynchronised-creation variant must violate NoLoss. The real unmodified transport is executed under a deterministic line-level scheduler (all 2^L choice prefixes of the creation race, seeded random schedules for six scenarios incl. exact, wildcard and prefix patterns); every append/popleft is logged at its linearization point and each history is validated by TLC against the abstract queue spec with the drained post-condition.",
         "line granularity = sys.settrace events in in_memory.py; atomicity of dict/deque C primitives under the GIL assumed; cooperative locks replace threading.Lock inside the module",
         "PlusCal line-level model + TLC; deterministic schedule exploration of the real code; TLC trace validation of recorded histories"),
}
NA = {}
