#!/bin/sh
# Offline setup: parse every TLA+ module with SANY, make sure the harness imports.
set -e
HERE="$(cd "$(dirname "$0")" && pwd)"
cd "$HERE/spec"
for f in *.tla; do
  out=$(java -cp /opt/veriftools/tla/tla2tools.jar:/opt/veriftools/tla/CommunityModules-deps.jar tla2sany.SANY "$f" 2>&1) || { echo "$out"; exit 1; }
  case "$out" in *"*** Errors"*|*"Could not parse"*|*"Fatal"*) echo "$out"; exit 1;; esac
done
cd "$HERE"
mkdir -p .work evidence/replays
PYTHONPATH="$HERE/harness" /venv/bin/python -c "import vharness.core, vharness.tlc, vharness.gamma, vharness.seams; vharness.seams.setup(); print('harness ok')"
echo "setup ok"
