"""A module that is never registered with the processor registry: its classes are only reachable through
fully qualified `module:Class` processor strings (C18: resolving such a string run after run must leave no residue)."""
from semantiva.examples.test_utils import FloatDataType, FloatOperation


class VQualifiedScale(FloatOperation):
    """Multiply by 2 (resolved by qualified name only)."""

    def _process_logic(self, data):
        return FloatDataType(data.data * 2.0)
