"""Harness package whose modules are reachable only by qualified name."""
