"""Process pool for replaying cases into the real code on all cores.

Workers are recycled after every chunk because the repository's component registry
grows with every executed pipeline (see C18), which slows long-lived processes."""
from __future__ import annotations

import multiprocessing as mp
import os
from typing import Any, Callable, Iterable, Iterator, List

NPROC = min(16, os.cpu_count() or 4)


def chunks(it: Iterable[Any], n: int) -> Iterator[List[Any]]:
    buf: List[Any] = []
    for x in it:
        buf.append(x)
        if len(buf) >= n:
            yield buf
            buf = []
    if buf:
        yield buf


def _init():
    from . import seams

    seams.setup()


def pmap(fn: Callable[[List[Any]], Any], items: Iterable[Any], *, chunk: int = 400,
         procs: int = NPROC, tasks_per_child: int = 1) -> Iterator[Any]:
    """Apply fn to chunks of items in worker processes; yields fn's return values."""
    ctx = mp.get_context("fork")
    with ctx.Pool(processes=procs, initializer=_init, maxtasksperchild=tasks_per_child) as pool:
        for res in pool.imap_unordered(fn, chunks(items, chunk)):
            yield res
