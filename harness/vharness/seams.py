"""Observation seams: everything the checks need to see, obtained through public
constructor arguments and subclassing -- no edits to the repository."""
from __future__ import annotations

import copy
import logging
import sys
from typing import Any, Dict, List, Optional

_READY = False


def setup() -> None:
    """Idempotent harness initialisation: silence logging, register both libraries."""
    global _READY
    if _READY:
        return
    logging.disable(logging.CRITICAL)
    hdir = str(__import__("pathlib").Path(__file__).resolve().parents[1])
    if hdir not in sys.path:
        sys.path.insert(0, hdir)
    from semantiva.registry import load_extensions

    load_extensions(["semantiva-examples", "verif_ext"])
    import verif_ext

    verif_ext.register()
    _READY = True


def classify_exc(exc: BaseException) -> str:
    """Failure class recognised from exception type/message (diagnosis and drift only)."""
    from semantiva.exceptions import InvalidNodeParameterError, PipelineConfigurationError

    msg = str(exc)
    if type(exc).__name__ == "VAbort":
        return "abort"
    if isinstance(exc, (InvalidNodeParameterError, PipelineConfigurationError)):
        return "build"
    if isinstance(exc, TypeError) and msg.startswith("Incompatible data type for Node"):
        return "type"
    if isinstance(exc, KeyError) and "Unable to resolve parameter" in msg:
        return "resolve"
    if isinstance(exc, KeyError) and "Invalid context key" in msg:
        return "undeclared"
    return "proc"


def make_recording_orchestrator():
    from semantiva.execution.orchestrator.orchestrator import LocalSemantivaOrchestrator
    from .gamma import a_ctx, a_data

    class RecordingOrchestrator(LocalSemantivaOrchestrator):
        """Logs one event per node start and per node completion (with the live payload)."""

        def __init__(self):
            super().__init__()
            self.events: List[tuple] = []
            self._started = 0

        def _submit_and_wait(self, node_callable, *, ser_hooks):
            self._started += 1
            self.events.append(("start", self._started))
            return super()._submit_and_wait(node_callable, ser_hooks=ser_hooks)

        def _publish(self, node, data, context, transport):
            self.events.append(("ok", self._started, a_data(data), copy.deepcopy(a_ctx(context))))
            return super()._publish(node, data, context, transport)

    return RecordingOrchestrator()


def scramble_config(obj: Any) -> None:
    """Edit a configuration structure IN PLACE, the way a caller may after having built a pipeline from it:
    numbers change, strings (processor names, expressions, keys) are replaced, lists are emptied, mappings lose
    their entries.  A built Pipeline must not be affected (it must not alias its caller's dicts and lists)."""
    if isinstance(obj, dict):
        for k in list(obj):
            v = obj[k]
            if isinstance(v, (dict, list)):
                scramble_config(v)
            elif isinstance(v, (int, float)) and not isinstance(v, bool):
                obj[k] = 987.0
            elif isinstance(v, str):
                obj[k] = "scrambled_" + v[:3]
        for k in list(obj)[1:]:
            del obj[k]
        obj["added_after_build"] = 1.0
    elif isinstance(obj, list):
        for v in obj:
            scramble_config(v)
        del obj[:]


def run_nodes(nodes: List[Dict[str, Any]], data: Any, ctx: Dict[str, Any], *, trace=None,
              pipeline=None, orchestrator=None, scramble: bool = False) -> Dict[str, Any]:
    """Run a node list on (data, ctx) through the real Pipeline and return the observation.
    scramble: build from a private copy of `nodes` WITHOUT a further copy, then edit that copy in place before running."""
    from semantiva.context_processors import ContextType
    from semantiva.pipeline import Payload, Pipeline
    from .gamma import a_ctx, a_data

    obs: Dict[str, Any] = {"construct_error": None, "raised": None, "exc_class": None, "exc": None,
                           "started": 0, "oks": [], "final": None}
    orch = orchestrator or make_recording_orchestrator()
    started0 = orch._started
    nev0 = len(orch.events)
    try:
        given = copy.deepcopy(nodes)
        p = pipeline or Pipeline(given, orchestrator=orch, trace=trace)
        if pipeline is not None:
            p.orchestrator = orch
        elif scramble:
            scramble_config(given)
    except Exception as exc:  # loader rejects the configuration
        obs["construct_error"] = f"{type(exc).__name__}: {exc}"
        return obs
    try:
        result = p.process(Payload(data, ContextType(dict(ctx))))
        obs["final"] = (a_data(result.data), a_ctx(result.context))
        obs["result"] = result          # the live objects the caller received
    except BaseException as exc:  # noqa: BLE001 - observation, re-classified below
        if isinstance(exc, (KeyboardInterrupt, SystemExit)):
            raise
        obs["raised"] = f"{type(exc).__name__}: {str(exc)[:200]}"
        obs["exc_class"] = classify_exc(exc)
        obs["exc"] = exc
    obs["started"] = orch._started - started0
    obs["oks"] = [(e[2], e[3]) for e in orch.events[nev0:] if e[0] == "ok"]
    obs["pipeline"] = p
    return obs
