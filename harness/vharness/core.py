"""Verdict discipline shared by all property checks.

A check builds a `Run`, adds TLC statistics, real executions and violations to it
and calls `finish()`, which writes evidence/<id>.json, prints VIOLATION /
KNOWN-FINDING lines and returns the exit code:
   0  property held on everything explored (known findings are printed, not alarmed)
   1  at least one violation whose witness key is not a listed finding
   2  machinery failure (raised as MachineryError / TLCError)
"""
from __future__ import annotations

import hashlib
import json
import os
import sys
import time
import traceback
from dataclasses import dataclass, field
from pathlib import Path
from typing import Any, Callable, Dict, List, Optional

ROOT = Path(__file__).resolve().parents[2]
EVIDENCE = Path(os.environ.get("VERIF_EVIDENCE_DIR") or ROOT / "evidence")  # selftest redirects this
REPLAYS = EVIDENCE / "replays"
FINDINGS_FILE = ROOT / "known_findings.json"


class MachineryError(RuntimeError):
    pass


def seed() -> int:
    try:
        return int(os.environ.get("VERIF_SEED", "0"))
    except ValueError:
        return 0


def load_findings() -> List[Dict[str, Any]]:
    if not FINDINGS_FILE.exists():
        return []
    return json.loads(FINDINGS_FILE.read_text())


@dataclass
class Violation:
    witness_key: str              # canonical, reduced description of the failing input / site / history
    what: str                     # human-readable: expected vs observed
    replay: Dict[str, Any]        # self-contained replay payload


@dataclass
class Run:
    pid: str
    tier: str
    level: str = "model_checking"
    t0: float = field(default_factory=time.time)
    states: int = 0
    transitions: int = 0
    traces_validated: int = 0
    evaluations: int = 0
    nontrivial: int = 0
    exhaustive: bool = False
    rule: str = ""
    samples: List[Any] = field(default_factory=list)
    tlc_cmds: List[str] = field(default_factory=list)
    constants: Dict[str, Any] = field(default_factory=dict)
    drift: List[str] = field(default_factory=list)
    assumptions: List[str] = field(default_factory=list)
    extra: Dict[str, Any] = field(default_factory=dict)
    violations: List[Violation] = field(default_factory=list)
    coverage_actions: Dict[str, int] = field(default_factory=dict)

    # ------------------------------------------------------------------
    def add_tlc(self, res, *, count_states: bool = True) -> None:
        if count_states:
            self.states += res.distinct
            self.transitions += res.generated
        self.tlc_cmds.append(f"{res.cmd}  [{res.distinct} distinct / {res.generated} generated, {res.wall_s:.1f}s]")
        for k, v in res.coverage.items():
            self.coverage_actions[k] = self.coverage_actions.get(k, 0) + v

    def require_tlc_ok(self, res, what: str) -> None:
        """A spec-level invariant failing is a machinery problem (the model is wrong or
        the design itself is wrong) -- it is never reported as a code violation."""
        if res.violated:
            raise MachineryError(
                f"TLC reports {res.violated} violated in {what}; the spec-level theorem does not hold:\n"
                + res.error_trace[:3000]
            )

    def require_actions(self, names: List[str]) -> None:
        missing = [n for n in names if self.coverage_actions.get(n, 0) == 0]
        if missing:
            raise MachineryError(f"vacuity: actions never taken: {missing}")

    def sample(self, s: Any, cap: int = 4) -> None:
        if len(self.samples) < cap:
            self.samples.append(s)

    def violation(self, witness_key: str, what: str, replay: Dict[str, Any]) -> None:
        # keep one violation per witness key; many cases reduce to the same witness
        for v in self.violations:
            if v.witness_key == witness_key:
                return
        self.violations.append(Violation(witness_key, what, replay))

    # ------------------------------------------------------------------
    def finish(self) -> int:
        findings = [f for f in load_findings() if f.get("property") == self.pid and f.get("status") == "finding"]
        finding_keys = {f["witness"]: f for f in findings}
        REPLAYS.mkdir(parents=True, exist_ok=True)
        new: List[Violation] = []
        known_hit: List[str] = []
        for v in self.violations:
            if v.witness_key in finding_keys:
                known_hit.append(v.witness_key)
                print(f"KNOWN-FINDING: property={self.pid} {v.witness_key}: {finding_keys[v.witness_key].get('what', v.what)}")
            else:
                new.append(v)
        rc = 0
        for v in new[:20]:
            h = hashlib.sha256(v.witness_key.encode()).hexdigest()[:12]
            path = REPLAYS / f"{self.pid}-{h}.json"
            payload = {"property": self.pid, "witness": v.witness_key, "what": v.what,
                       "seed": seed(), "tier": self.tier, "replay": v.replay}
            path.write_text(json.dumps(payload, indent=1, default=str))
            print(f"VIOLATION property={self.pid} replay={path}")
            print(f"  witness: {v.witness_key}")
            print(f"  {v.what[:600]}")
            rc = 1
        if len(new) > 20:
            print(f"  ... and {len(new) - 20} further distinct violating witnesses")
        cov: Dict[str, Any] = {
            "states": self.states,
            "transitions": self.transitions,
            "traces_validated_against_impl": self.traces_validated,
            "evaluations": self.evaluations,
            "distinct_nontrivial": self.nontrivial,
            "rule": self.rule,
            "samples": self.samples or ["(no sample recorded)"],
            "exhaustive": self.exhaustive,
            "tlc_cmds": self.tlc_cmds,
            "constants": self.constants,
            "drift": self.drift[:50],
            "known_findings_hit": known_hit,
            "actions_covered": self.coverage_actions,
        }
        cov.update(self.extra)
        ev = {
            "property_id": self.pid,
            "tier": self.tier,
            "seed": seed(),
            "level": self.level,
            "coverage": cov,
            "assumptions": self.assumptions,
            "wall_s": round(time.time() - self.t0, 2),
            "violations": len(new),
        }
        # extension checks (X..: models beyond the listed properties) keep their evidence apart from the
        # per-property files that MANIFEST.json registers
        evdir = EVIDENCE / "ext" if self.pid.startswith("X") else EVIDENCE
        evdir.mkdir(parents=True, exist_ok=True)
        (evdir / f"{self.pid}.json").write_text(json.dumps(ev, indent=1, default=str))
        for d in self.drift[:10]:
            print(f"DRIFT: {d}")
        print(f"{self.pid} {self.tier}: states={self.states} transitions={self.transitions} "
              f"impl_traces={self.traces_validated} evaluations={self.evaluations} nontrivial={self.nontrivial} "
              f"violations={len(new)} known={len(known_hit)} wall={ev['wall_s']}s")
        return rc


def run_check(fn: Callable[[str], int], tier: str) -> int:
    try:
        return fn(tier)
    except MachineryError as exc:
        print(f"MACHINERY-ERROR: {exc}", file=sys.stderr)
        return 2
    except Exception as exc:  # TLCError and anything unexpected
        traceback.print_exc()
        print(f"MACHINERY-ERROR: {type(exc).__name__}: {exc}", file=sys.stderr)
        return 2
