"""Environment probe: which environment variables does the code under test consult, and does a property survive when
they are set?

The listed properties quantify over configurations, payloads, histories and schedules -- never over the process
environment, so none of them may come to depend on it.  The names cannot be guessed, but they can be OBSERVED:
`discover(fn)` runs `fn` with every lookup in `os.environ` recorded (os.getenv, os.environ.get, `in`, [] all end in
`_Environ.__getitem__`), and returns the SEMANTIVA_* names that were asked for and are not set.  A check then re-runs a
small, fast part of itself with each such variable set to a few plausible values (`with_env`) -- whatever the variable
is for, the property has to hold."""
from __future__ import annotations

import contextlib
import os
from typing import Callable, Dict, Iterable, Iterator, List, Set

# documented switches of the framework / of this harness that are allowed to matter (none of them touches a listed property)
KNOWN = {"SEMANTIVA_DOCSTRING_MAX_CHARS", "SEMANTIVA_VERIF"}
PREFIXES = ("SEMANTIVA", "SVA_")
VALUES = ["1", "2", "4", "true", "0", "warn", "ignore", "off"]


@contextlib.contextmanager
def recording() -> Iterator[Set[str]]:
    asked: Set[str] = set()
    cls = type(os.environ)
    orig = cls.__getitem__

    def spy(self, key):
        if isinstance(key, str):
            asked.add(key)
        return orig(self, key)
    cls.__getitem__ = spy          # type: ignore[method-assign]
    try:
        yield asked
    finally:
        cls.__getitem__ = orig     # type: ignore[method-assign]


def discover(fn: Callable[[], object]) -> List[str]:
    """Names with a framework prefix that `fn` looked up in the environment and that are not set."""
    with recording() as asked:
        try:
            fn()
        except Exception:
            pass
    return sorted(k for k in asked if k.startswith(PREFIXES) and k not in KNOWN and k not in os.environ)


@contextlib.contextmanager
def with_env(assign: Dict[str, str]) -> Iterator[None]:
    old = {k: os.environ.get(k) for k in assign}
    os.environ.update(assign)
    try:
        yield
    finally:
        for k, v in old.items():
            if v is None:
                os.environ.pop(k, None)
            else:
                os.environ[k] = v


def settings(names: Iterable[str]) -> List[Dict[str, str]]:
    return [{n: v} for n in names for v in VALUES]
