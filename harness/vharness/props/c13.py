"""C13 -- trace aggregation is order-independent and right for every partial trace.

TLC: Aggregator.tla (one action per _ingest_* method, Finalize as a pure query) is explored over
record universes; StateIsFoldOfSet / PrefixVerdict / LaunchRollup are invariants and the verdicts
of EVERY subset are emitted as an oracle table.  spec->impl: real records produced by the runtime
(launches emulated exactly as the CLI drives them) are ingested into the real TraceAggregator in
every order (exhaustive for the 6- and 8-record universes, sampled beyond) with finalize_all()
after every ingest, twice; each verdict must equal the table entry of the ingested set.
impl->spec: traces of random (also failing) pipelines/launches, every prefix, random permutations,
k-way file interleavings and subsets are recorded with the verdict after each ingest and
batch-validated by TLC against AggregatorTrace.tla."""
from __future__ import annotations

import itertools
import json
import random
import re
import shutil
import tempfile
import uuid
from pathlib import Path
from typing import Any, Dict, List, Tuple

from .. import core, tlc
from ..pool import pmap

# --------------------------------------------------------------------------- real records


def emulate_launch(nodes, run_ctxs, *, launch_id="L1", attempt=1, with_launch=True) -> List[Dict[str, Any]]:
    """Produce the records of a launch exactly the way cli._run drives the runtime."""
    from semantiva.context_processors import ContextType
    from semantiva.data_types import NoDataType
    from semantiva.pipeline import Payload, Pipeline
    from semantiva.trace.runtime import RunSpaceTraceEmitter, TraceContext
    from ..traced import make_driver, read_records

    tmp = Path(tempfile.mkdtemp(prefix="vagg-"))
    try:
        drv = make_driver(str(tmp / "t"), "hash")
        pipe = Pipeline(nodes, trace=drv)
        emitter = tc = None
        if with_launch:
            emitter = RunSpaceTraceEmitter(drv)
            tc = TraceContext()
            tc.set_run_space_fk(spec_id="s" * 64, launch_id=launch_id, attempt=attempt)
            emitter.emit_start(run_space_spec_id="s" * 64, run_space_launch_id=launch_id, run_space_attempt=attempt,
                               run_space_combine_mode="combinatorial", run_space_total_runs=len(run_ctxs),
                               run_space_planned_run_count=len(run_ctxs))
        done = 0
        for idx, c in enumerate(run_ctxs):
            if with_launch:
                pipe.set_run_metadata({"trace_context": tc, "run_space_index": idx, "run_space_context": dict(c)})
            try:
                pipe.process(Payload(NoDataType(), ContextType(dict(c))))
                done += 1
            except Exception:
                break
        if with_launch:
            emitter.emit_end(run_space_launch_id=launch_id, run_space_attempt=attempt,
                             summary={"planned_runs": len(run_ctxs), "completed_runs": done})
        drv.close()
        # stream order: launch start, runs in order, launch end
        recs = read_records(tmp / "t")
        order = {"run_space_start": 0, "pipeline_start": 1, "ser": 1, "pipeline_end": 1, "run_space_end": 2}
        ls = [r for r in recs if r["record_type"] == "run_space_start"]
        le = [r for r in recs if r["record_type"] == "run_space_end"]
        mid = [r for r in recs if r["record_type"] not in ("run_space_start", "run_space_end")]
        # per-run files are named by start time; keep runs in start order
        starts = [r for r in mid if r["record_type"] == "pipeline_start"]
        starts.sort(key=lambda r: r["seq"])
        out = list(ls)
        for s in starts:
            rid = s["run_id"]
            out.append(s)
            out += [r for r in mid if r["record_type"] == "ser" and r["identity"]["run_id"] == rid]
            out += [r for r in mid if r["record_type"] == "pipeline_end" and r["run_id"] == rid]
        return out + le
    finally:
        shutil.rmtree(tmp, ignore_errors=True)


class Abstraction:
    """Maps real record ids to the small integers of the spec."""

    def __init__(self, records):
        self.runs: Dict[str, int] = {}
        self.launches: Dict[str, int] = {}
        self.nodes: Dict[str, Dict[str, int]] = {}
        for r in records:
            t = r["record_type"]
            if t == "pipeline_start":
                self._run(r["run_id"])
                for i, n in enumerate(r.get("pipeline_spec_canonical", {}).get("nodes", [])):
                    self.nodes.setdefault(r["run_id"], {})[n["node_uuid"]] = i + 1
                if r.get("run_space_launch_id"):
                    self._launch(self._lkey(r))
            elif t in ("run_space_start", "run_space_end"):
                self._launch(self._lkey(r))
        for r in records:
            if r["record_type"] == "ser":
                rid, nid = r["identity"]["run_id"], r["identity"]["node_id"]
                self._run(rid)
                m = self.nodes.setdefault(rid, {})
                if nid not in m:
                    m[nid] = 100 + len(m)
            elif r["record_type"] == "pipeline_end":
                self._run(r["run_id"])

    def _run(self, rid):
        self.runs.setdefault(rid, len(self.runs) + 1)

    @staticmethod
    def _lkey(r):
        # a launch is identified by (launch id, attempt): a retry under the same id is another launch
        return (r["run_space_launch_id"], int(r.get("run_space_attempt") or 1))

    def _launch(self, lkey):
        self.launches.setdefault(lkey, len(self.launches) + 1)

    def rec(self, r) -> Dict[str, Any]:
        t = r["record_type"]
        base = {"t": "", "run": 0, "launch": 0, "nodes": [], "node": 0, "status": ""}
        if t == "pipeline_start":
            base.update(t="ps", run=self.runs[r["run_id"]],
                        launch=self.launches.get(self._lkey(r), 0) if r.get("run_space_launch_id") else 0,
                        nodes=sorted(self.nodes[r["run_id"]][n["node_uuid"]] for n in r.get("pipeline_spec_canonical", {}).get("nodes", [])))
        elif t == "ser":
            rid = r["identity"]["run_id"]
            base.update(t="ser", run=self.runs[rid], node=self.nodes[rid][r["identity"]["node_id"]], status=r["status"])
        elif t == "pipeline_end":
            base.update(t="pe", run=self.runs[r["run_id"]])
        elif t == "run_space_start":
            base.update(t="ls", launch=self.launches[self._lkey(r)])
        elif t == "run_space_end":
            base.update(t="le", launch=self.launches[self._lkey(r)])
        return base

    def key(self, r) -> Tuple:
        a = self.rec(r)
        return (a["t"], a["run"], a["node"], a["launch"], tuple(a["nodes"]), a["status"])

    def verdicts(self, agg) -> Dict[str, Any]:
        """finalize every known run/launch of the real aggregator -> abstract verdict records"""
        runs, launches = [], []
        for rid, ri in self.runs.items():
            if agg.get_run(rid) is None:
                continue
            v = agg.finalize_run(rid)
            nm = self.nodes.get(rid, {})
            runs.append({"run": ri, "status": v.status, "problems": sorted(p for p in v.problems),
                         "missing": sorted(nm[n] for n in v.missing_nodes), "orphans": sorted(nm[n] for n in v.orphan_nodes),
                         "hasStart": bool(v.summary.get("has_start")), "hasEnd": bool(v.summary.get("has_end")),
                         "observed": int(v.summary.get("nodes_observed", 0))})
        for (lid, att), li in self.launches.items():
            if agg.get_launch(lid, att) is None:
                continue
            v = agg.finalize_launch(lid, att)
            by = v.summary.get("runs_by_status", {})
            launches.append({"launch": li, "status": v.status, "problems": sorted(v.problems), "total": v.summary.get("runs_total"),
                             "complete": by.get("complete"), "partial": by.get("partial"), "invalid": by.get("invalid")})
        return {"runs": sorted(runs, key=lambda x: x["run"]), "launches": sorted(launches, key=lambda x: x["launch"])}


# --------------------------------------------------------------------------- universes (spec->impl)

def real_universe(name: str) -> List[Dict[str, Any]]:
    src = {"processor": "FloatValueDataSource"}
    mul = {"processor": "FloatMultiplyOperation"}
    if name == "U6":
        return emulate_launch([{"processor": "FloatDataSource"}, {"processor": "FloatSquareOperation"}], [{}])
    if name == "U8":
        return emulate_launch([src], [{"value": 1.0}, {"value": "bad"}])
    if name == "U10":
        return emulate_launch([src, mul], [{"value": 1.0, "factor": 2.0}, {"value": 1.0, "factor": "x"}])
    if name == "U9":
        solo = emulate_launch([{"processor": "FloatDataSource"}, {"processor": "FloatSquareOperation"}], [{}], with_launch=False)
        # orphan SER: a copy of SER 2 attributed to a node id the canonical spec does not contain
        orphan = json.loads(json.dumps(solo[2]))
        orphan["identity"]["node_id"] = "00000000-0000-0000-0000-00000000beef"
        solo = [solo[0], solo[1], orphan, solo[3]]
        launched = emulate_launch([{"processor": "FloatDataSource"}], [{}])
        launched[1]["pipeline_spec_canonical"] = {"version": 1, "nodes": [], "edges": []}   # run of an unknown spec
        return solo + launched
    if name == "UA7":
        # a RETRIED launch: attempt 1 of launch id "nightly" crashed inside its run (no pipeline_end... here: no run_space_end),
        # attempt 2 under the SAME id completed; the SERs are left out to keep the universe at 7 records
        a1 = [r for r in emulate_launch([{"processor": "FloatDataSource"}], [{}], launch_id="nightly", attempt=1) if r["record_type"] != "ser"]
        a2 = [r for r in emulate_launch([{"processor": "FloatDataSource"}], [{}], launch_id="nightly", attempt=2) if r["record_type"] != "ser"]
        return a1[:-1] + a2
    if name == "UD6":
        # the SAME launch (id and attempt) executed twice -- a resubmission under one idempotency key without bumping the
        # attempt: the first execution was killed after its run, the second completed; both runs carry run_space_index 0
        a1 = [r for r in emulate_launch([{"processor": "FloatDataSource"}], [{}], launch_id="dup", attempt=1) if r["record_type"] != "ser"]
        a2 = [r for r in emulate_launch([{"processor": "FloatDataSource"}], [{}], launch_id="dup", attempt=1) if r["record_type"] != "ser"]
        return a1[:-1] + a2
    raise ValueError(name)


def spec_key(j) -> Tuple:
    return (j["t"], j["run"], j["node"], j["launch"], tuple(sorted(j["nodes"])), j["status"])


def load_table(res_emitted) -> Dict[frozenset, Dict[str, Any]]:
    table = {}
    for e in res_emitted:
        k = frozenset(spec_key(j) for j in e["ingested"])
        table[k] = {"runs": {v["run"]: v for v in e["runs"]}, "launches": {v["launch"]: v for v in e["launches"]}}
    return table


def verdict_equal(real: Dict[str, Any], spec: Dict[str, Any]) -> str | None:
    for rv in real["runs"]:
        sv = spec["runs"].get(rv["run"])
        if sv is None:
            return f"run {rv['run']} unknown to the spec table"
        for f in ("status", "hasStart", "hasEnd", "observed"):
            if rv[f] != sv[f]:
                return f"run {rv['run']}.{f}: code {rv[f]!r} spec {sv[f]!r}"
        for f in ("problems", "missing", "orphans"):
            if sorted(rv[f]) != sorted(sv[f]):
                return f"run {rv['run']}.{f}: code {sorted(rv[f])} spec {sorted(sv[f])}"
    known_spec = {r for r, v in spec["runs"].items() if "unknown_run" not in v["problems"]}
    if {rv["run"] for rv in real["runs"]} != known_spec:
        return f"known runs: code {sorted(rv['run'] for rv in real['runs'])} spec {sorted(known_spec)}"
    for lv in real["launches"]:
        sv = spec["launches"].get(lv["launch"])
        if sv is None:
            return f"launch {lv['launch']} unknown to the spec table"
        for f in ("status", "total", "complete", "partial", "invalid"):
            if lv[f] != sv[f]:
                return f"launch.{f}: code {lv[f]!r} spec {sv[f]!r}"
        if sorted(lv["problems"]) != sorted(sv["problems"]):
            return f"launch.problems: code {lv['problems']} spec {sv['problems']}"
    return None


def orders_chunk(job):
    """job = (universe name, records, table items, list of orders (index tuples))"""
    from semantiva.trace.aggregation.aggregator import TraceAggregator

    name, records, table_items, orders = job
    table = {frozenset(tuple(x) if not isinstance(x, tuple) else x for x in k): v for k, v in table_items}
    ab = Abstraction(records)
    keys = [ab.key(r) for r in records]
    out = {"n": 0, "steps": 0, "viol": []}
    import warnings as _warnings
    for order in orders:
        agg = TraceAggregator()
        S = set()
        out["n"] += 1
        # ENVIRONMENT: every fifth order is ingested in a process that turns warnings into errors (python -W error,
        # PYTHONWARNINGS=error, a test runner's filterwarnings): verdicts do not depend on the warning filters
        strict = out["n"] % 5 == 2
        for pos, i in enumerate(order):
            if strict:
                with _warnings.catch_warnings():
                    _warnings.simplefilter("error")
                    try:
                        agg.ingest(records[i])
                    except Warning as w:
                        out["viol"].append((f"environment:warnings-as-errors:{name}", f"universe {name}: with warnings turned into errors, ingesting "
                                            f"{keys[i][:4]} after {[keys[j][:4] for j in order[:pos]]} raises {type(w).__name__}: {w}", {"universe": name, "order": list(order)}))
                        break
            else:
                agg.ingest(records[i])
            S.add(keys[i])
            v1 = ab.verdicts(agg)
            v2 = ab.verdicts(agg)
            out["steps"] += 1
            if v1 != v2:
                out["viol"].append((f"finalize-not-idempotent:{name}", f"finalising twice changes the verdict after {[keys[j][:4] for j in order[:pos + 1]]}", {"universe": name, "order": list(order)}))
                break
            spec = table.get(frozenset(S))
            if spec is None:
                raise core.MachineryError(f"subset not in oracle table: {sorted(S)}")
            diff = verdict_equal(v1, spec)
            if diff:
                last = keys[i]
                out["viol"].append((f"verdict:{name}:after-{last[0]}:{diff.split(':')[0]}",
                                    f"universe {name}, ingestion order {[keys[j][:4] for j in order[:pos + 1]]}: {diff}",
                                    {"universe": name, "order": list(order[:pos + 1])}))
                break
        else:
            # the same records through ingest_many fed by a ONE-SHOT iterator (a lazily decoded / interleaved
            # JSONL stream) must leave the aggregator in the same state as record-by-record ingestion
            if out["n"] % 7 == 1:
                agg2 = TraceAggregator()
                agg2.ingest_many(records[i] for i in order)
                if ab.verdicts(agg2) != ab.verdicts(agg):
                    out["viol"].append((f"ingest-many:lazy-stream:{name}",
                                        f"universe {name}: ingest_many(<generator over {len(order)} records>) gives {ab.verdicts(agg2)} "
                                        f"but ingesting the same records one by one gives {ab.verdicts(agg)}", {"universe": name, "order": list(order)}))
            # ... and a stream that BREAKS after k records (a trace file cut in the middle of a line by a crash: the
            # decoder raises): what was delivered before the break is what a record-by-record reader has ingested
            if out["n"] % 7 == 3:
                k = 1 + (out["n"] // 7) % (len(order) - 1)

                def broken():
                    for j in order[:k]:
                        yield records[j]
                    raise ValueError("Unterminated string starting at: line 1 column 17 (char 16)")
                agg3, agg4 = TraceAggregator(), TraceAggregator()
                try:
                    agg3.ingest_many(broken())
                except ValueError:
                    pass
                for j in order[:k]:
                    agg4.ingest(records[j])
                if ab.verdicts(agg3) != ab.verdicts(agg4):
                    out["viol"].append((f"ingest-many:broken-stream:{name}",
                                        f"universe {name}: ingest_many over a stream that raises after {k} records leaves {ab.verdicts(agg3)}; "
                                        f"the {k} delivered records ingested one by one give {ab.verdicts(agg4)}", {"universe": name, "order": list(order), "k": k}))
    return out


def orders_jobs(js):
    return [orders_chunk(j) for j in js]


# --------------------------------------------------------------------------- impl->spec

def history_chunk(seeds: List[int]):
    """Random real traces (single runs and launches, also failing) x prefix / permutation /
    interleaving / subset; returns recorded histories for TLC."""
    from semantiva.trace.aggregation.aggregator import TraceAggregator
    from ..gamma import g_prog
    from .c01_trace import gen_program

    out = []
    for sd in seeds:
        rng = random.Random(sd)
        recs: List[Dict[str, Any]] = []
        streams: List[List[Dict[str, Any]]] = []
        for k in range(rng.randint(1, 2)):
            case = gen_program(rng, maxlen=5)
            nodes = g_prog(case["prog"])
            from ..gamma import g_ctx
            ctx = g_ctx(case["ictx"])
            try:
                if rng.random() < 0.5:
                    s = emulate_launch(nodes, [ctx] * rng.randint(1, 3), launch_id=f"L{sd}-{k}")
                else:
                    s = emulate_launch(nodes, [ctx], with_launch=False)
            except Exception:
                continue
            if s:
                streams.append(s)
        if not streams:
            continue
        mode = rng.choice(["prefix", "perm", "interleave", "subset"])
        flat = [r for s in streams for r in s]
        if mode == "prefix":
            seq = flat[:rng.randint(1, len(flat))]
        elif mode == "perm":
            seq = flat[:]
            rng.shuffle(seq)
        elif mode == "subset":
            seq = [r for r in flat if rng.random() < 0.6] or flat[:1]
            rng.shuffle(seq)
        else:
            its = [list(s) for s in streams]
            seq = []
            while any(its):
                s = rng.choice([x for x in its if x])
                seq.append(s.pop(0))
        ab = Abstraction(flat)
        agg = TraceAggregator()
        events = []
        for r in seq:
            agg.ingest(r)
            v = ab.verdicts(agg)
            events.append({"rec": ab.rec(r), "runs": v["runs"], "launches": v["launches"]})
        out.append({"mode": mode, "events": events, "producer_prefix": mode == "prefix"})
    return out


def run_batch(traces, cfg="AggregatorTrace"):
    tlc.WORK.mkdir(parents=True, exist_ok=True)
    path = tlc.WORK / f"atraces-{uuid.uuid4().hex[:8]}.json"
    path.write_text(json.dumps([t["events"] for t in traces]))
    try:
        res = tlc.run_tlc("AggregatorTrace", cfg, workers=1, env={"TRACE_FILE": str(path)}, timeout=1800)
    finally:
        path.unlink(missing_ok=True)
    if res.violated:
        return res, None
    rej = set()
    m2 = re.search(r'"REJECTED",\s*\{([^}]*)\}', res.stdout)
    if m2:
        rej = {int(x) for x in m2.group(1).split(",") if x.strip()}
    ma = re.search(r'"ACCEPTED",\s*(\d+),\s*(\d+)', res.stdout)
    if ma and int(ma.group(1)) + len(rej) != int(ma.group(2)):
        raise core.MachineryError(f"batch verdict inconsistent: accepted {ma.group(1)} + rejected {len(rej)} != {ma.group(2)}")
    if "ACCEPTED" not in res.stdout and "MATCHED" not in res.stdout:
        raise core.MachineryError("trace validation produced no verdict:\n" + res.stdout[-1500:])
    return res, rej


def diagnose(trace) -> str:
    res, _ = run_batch([trace], cfg="AggregatorTraceDiag")
    m = re.search(r'<<"MATCHED", (-?\d+)>>', res.stdout)
    k = int(m.group(1)) if m else -1
    ev = trace["events"]
    return (f"({trace['mode']}) spec explains the first {k} of {len(ev)} ingests; after ingesting "
            f"{[e['rec']['t'] + str(e['rec']['run'] or e['rec']['launch']) for e in ev[:k + 1]]} the code's verdicts "
            f"{json.dumps({'runs': ev[k]['runs'], 'launches': ev[k]['launches']}) if 0 <= k < len(ev) else ''} are not the spec's")


def check(tier: str) -> int:
    from .. import seams

    seams.setup()
    run = core.Run("C13", tier)
    run.rule = ("spec->impl: ingestion orders of real runtime records over 4 universes (all 720 / 40320 orders of U6 / U8, "
                "sampled for U10 / U9), finalize_all twice after every ingest, verdict compared with TLC's per-subset table; "
                "impl->spec: recorded histories (prefix / permutation / k-way interleaving / subset of real traces) validated "
                "by TLC; non-trivial = number of (order, prefix) verdict comparisons")
    run.assumptions = ["one SER per node (what the runtime emits); a launch is identified by (launch id, attempt)",
                       "launch records are produced by driving RunSpaceTraceEmitter/Pipeline exactly as cli._run does"]
    rng = random.Random(core.seed() + 13)
    total_steps = 0
    for name in ("U6", "U8", "U10", "U9", "UA7", "UD6"):
        res = tlc.run_tlc("MC_Aggregator", f"Aggregator.{name}.check", coverage=True, timeout=900)
        run.add_tlc(res)
        run.require_tlc_ok(res, name)
        em = tlc.run_tlc("MC_Aggregator", f"Aggregator.{name}.emit", workers=1, parse_emitted=True, timeout=900)
        run.add_tlc(em, count_states=False)
        table = load_table(em.emitted)
        records = real_universe(name)
        ab = Abstraction(records)
        keys = {ab.key(r) for r in records}
        full = max(table, key=len)
        if keys != set(full):
            raise core.MachineryError(f"{name}: real records {sorted(keys)} do not match the spec universe {sorted(full)}")
        n = len(records)
        if name in ("U6", "UA7", "UD6"):
            orders = list(itertools.permutations(range(n)))
            if name in ("UA7", "UD6") and tier == "quick":
                orders = rng.sample(orders, 2000)
        elif name == "U8":
            orders = list(itertools.permutations(range(n)))
            if tier == "quick":
                orders = rng.sample(orders, 6000)
        else:
            orders = [tuple(rng.sample(range(n), n)) for _ in range(3000 if tier == "quick" else 60000)]
        # k-way interleavings that keep per-run stream order are orders too; add them explicitly
        table_items = [(list(k), v) for k, v in table.items()]
        jobs = [(name, records, table_items, orders[i:i + 500]) for i in range(0, len(orders), 500)]
        nn = 0
        for chunk in pmap(orders_jobs, jobs, chunk=1):
            for r in chunk:
                nn += r["n"]
                total_steps += r["steps"]
                for key, what, rep in r["viol"]:
                    run.violation(key, what, rep)
        run.extra.setdefault("orders_per_universe", {})[name] = nn
        run.evaluations += nn
        run.traces_validated += nn
        if name in ("U6",) or (name == "U8" and tier != "quick"):
            run.exhaustive = True
    run.nontrivial = total_steps
    run.require_actions(["Ingest"])
    # ---- impl -> spec
    n_hist = 600 if tier == "quick" else 8000
    base = core.seed() * 1000003
    hist = []
    for chunk in pmap(history_chunk, range(base, base + n_hist), chunk=40):
        hist += chunk
    if len(hist) < n_hist // 3:
        raise core.MachineryError(f"too few recorded histories: {len(hist)}")
    rejected = []
    for i in range(0, len(hist), 1500):
        batch = hist[i:i + 1500]
        res, rej = run_batch(batch)
        run.add_tlc(res)
        if rej is None:
            run.violation("history-invariant:" + str(res.violated), res.error_trace[:1500], {})
            continue
        rejected += [batch[j - 1] for j in sorted(rej)]
    for t in rejected[:8]:
        run.violation(f"history:{t['mode']}", "recorded aggregator history is not a behaviour of Aggregator.tla: " + diagnose(t), {"trace": t})
    run.traces_validated += len(hist) - len(rejected)
    run.evaluations += len(hist)
    modes: Dict[str, int] = {}
    for t in hist:
        modes[t["mode"]] = modes.get(t["mode"], 0) + 1
    run.extra["impl_to_spec"] = {"histories": len(hist), "rejected": len(rejected), "by_mode": modes}
    run.sample({"history": hist[0]["events"][:3], "mode": hist[0]["mode"]})
    return run.finish()


def replay_one(payload):
    from .. import seams
    seams.setup()
    print("replay: re-run ./check C13 (orders are regenerated from the seed)")
    return 0
