"""C11 -- sweep expressions are confined to the safe grammar and their own variables.

TLC: SafeExpr.tla states the documented policy over one-hole paths through the expression
grammar of the running interpreter (AstGrammar.tla is generated from `ast`), and a model of the
visitor's traversal; VisitorMatchesPolicy is an invariant for the traversal that visits call
keywords and is violated by the one that does not (the pinned tree).  Every path up to the
depth bound is emitted with the policy's verdict, concretised into a real AST (canonical safe
fillers at every sibling position), unparsed and given to ExpressionEvaluator.compile; accepted
expressions are evaluated under an audit hook.  A corpus of sandbox-escape idioms is planted at
every argument / keyword / operand / test / comparator position."""
from __future__ import annotations

import ast
import warnings
import os
import sys
from typing import Any, Dict, List, Optional, Tuple

from .. import astgrammar, core, tlc
from ..pool import pmap

warnings.filterwarnings("ignore", category=SyntaxWarning)
VARS = {"x", "t"}
GRAMMAR = None
AUDIT: List[str] = []
_HOOKED = [False]


def _hook(event, args):
    if AUDIT is not None and _HOOKED[0]:
        if event in ("import", "open", "os.system", "subprocess.Popen", "os.listdir", "os.scandir") or event.startswith("os."):
            AUDIT.append(event)


def gram():
    global GRAMMAR
    if GRAMMAR is None:
        GRAMMAR = astgrammar.grammar()
    return GRAMMAR


FILLER_MODE = ["name"]      # "name": sibling expression slots hold a declared variable; "const": a numeric literal


def filler(sort: str, mult: str, kind: str, fname: str):
    """Canonical safe filler of a sibling position."""
    if sort == "expr":
        if mult == "?":
            return None
        one = ast.Name("x", ast.Load()) if FILLER_MODE[0] == "name" else ast.Constant(7)
        if mult == "*":
            if kind == "BoolOp":
                return [ast.Name("x", ast.Load()), ast.Name("t", ast.Load())]
            if kind in ("Dict",) or fname in ("ifs", "kw_defaults", "defaults"):
                return [one] if kind == "Dict" else []
            return [one]
        return one
    if sort == "expr_context":
        return ast.Load()
    if sort == "operator":
        return ast.Add()
    if sort == "unaryop":
        return ast.USub()
    if sort == "boolop":
        return ast.And()
    if sort == "cmpop":
        return [ast.Lt()] if mult == "*" else ast.Lt()
    if sort == "keyword":
        return []
    if sort == "comprehension":
        return [ast.comprehension(target=ast.Name("i", ast.Store()), iter=ast.Tuple([ast.Name("x", ast.Load())], ast.Load()), ifs=[], is_async=0)]
    if sort == "arguments":
        return ast.arguments(posonlyargs=[], args=[], vararg=None, kwonlyargs=[], kw_defaults=[], kwarg=None, defaults=[])
    if sort == "arg":
        return [] if mult == "*" else (None if mult == "?" else ast.arg("a", None, None))
    if sort == "identifier":
        return None if (mult == "?" and kind == "keyword" and False) else ("k" if kind == "keyword" else "real" if kind == "Attribute" else "x")
    if sort == "constant":
        return 1
    if sort == "int":
        return -1 if fname == "conversion" else 0
    if sort == "string":
        return None
    raise ValueError(f"no filler for sort {sort}")


def fields(kind: str):
    g = gram()
    return g["expr"].get(kind) or g["aux"].get(kind)


def leaf(kind: str):
    g = gram()
    for fam, ks in g["ops"].items():
        if kind in ks:
            return getattr(ast, kind)()
    if kind == "NameUndeclared":
        return ast.Name("zz", ast.Load())
    if kind == "NameFunc":
        return ast.Name("abs", ast.Load())
    return build(kind, None, None)


def build(kind: str, hole: Optional[str], child):
    base = {"NameUndeclared": "Name", "NameFunc": "Name", "CallUnknownFunc": "Call", "CallDeclaredVar": "Call",
            "CallAttr": "Call", "CallLambda": "Call"}.get(kind, kind)
    if kind in ("NameUndeclared", "NameFunc") and hole is None:
        return leaf(kind)
    cls = getattr(ast, base)
    kw = {}
    for name, sort, mult in fields(base):
        if name == hole:
            if mult == "*":
                val = [child]
                if base == "BoolOp":
                    val = [child, ast.Name("t", ast.Load())]
            else:
                val = child
        else:
            val = filler(sort, mult, base, name)
        kw[name] = val
    if base == "Call":
        kw["func"] = {"Call": ast.Name("abs", ast.Load()), "CallUnknownFunc": ast.Name("open", ast.Load()),
                      "CallDeclaredVar": ast.Name("x", ast.Load()),
                      "CallAttr": ast.Attribute(ast.Name("x", ast.Load()), "conjugate", ast.Load()),
                      "CallLambda": ast.Lambda(filler("arguments", "", "Lambda", "args"), ast.Constant(1))}[kind]
    if base == "Compare":
        n = max(len(kw["ops"]), len(kw["comparators"]))
        kw["ops"] = (kw["ops"] * n)[:n]
        kw["comparators"] = (kw["comparators"] * n)[:n] if kw["comparators"] else [ast.Name("x", ast.Load())]
    if base == "Dict":
        n = max(len(kw["keys"]), len(kw["values"]))
        kw["keys"] = (kw["keys"] * n)[:n]
        kw["values"] = (kw["values"] * n)[:n]
    if base == "Constant":
        kw = {"value": 1}
    if base == "keyword" and kw.get("arg") is None:
        kw["arg"] = "k"
    return cls(**kw)


def concretise(case) -> Optional[str]:
    """Path -> expression text a user could write (None if not realisable as source)."""
    node = leaf(case["cur"])
    for step in reversed(case["stack"]):
        node = build(step["k"], step["f"], node)
    try:
        tree = ast.fix_missing_locations(ast.Expression(body=node))
        text = ast.unparse(tree)
        back = ast.parse(text, mode="eval")
        if ast.dump(back) != ast.dump(tree):
            return None
        compile(back, "<p>", "eval")
    except Exception:
        return None
    return text


def judge(expr: str) -> Tuple[str, List[str], Optional[str]]:
    """Returns (accepted|rejected|other-error, audit events during evaluation, detail)."""
    from semantiva.utils.safe_eval import ExpressionError, ExpressionEvaluator

    if not _HOOKED[0]:
        sys.addaudithook(_hook)
    try:
        fn = ExpressionEvaluator().compile(expr, set(VARS))
    except ExpressionError as exc:
        return "rejected", [], str(exc)[:100]
    except Exception as exc:  # not the expression error: the property demands ExpressionError
        return "other-error", [], f"{type(exc).__name__}: {exc}"[:160]
    del AUDIT[:]
    _HOOKED[0] = True
    detail = None
    try:
        fn(x=3.0, t=2.0)
    except BaseException as exc:  # noqa: BLE001 - evaluation errors of accepted arithmetic are fine
        detail = f"{type(exc).__name__}"
    finally:
        _HOOKED[0] = False
    return "accepted", list(AUDIT), detail


def judge_factory(expr: str) -> Tuple[str, List[str], Optional[str]]:
    """The same question asked where users ask it: the expression as a `derive.parameter_sweep` parameter of a
    node configuration (loader -> sweep factory -> evaluator).  Accepted = the pipeline is constructed."""
    from semantiva.pipeline import Pipeline

    if not _HOOKED[0]:
        sys.addaudithook(_hook)
    cfg = [{"processor": "VPairSource", "derive": {"parameter_sweep": {
        "parameters": {"a": expr}, "variables": {"x": {"values": [3.0]}, "t": {"values": [2.0]}},
        "collection": "FloatDataCollection"}}}]
    try:
        p = Pipeline(cfg)
    except Exception as exc:
        return "rejected", [], f"{type(exc).__name__}: {exc}"[:160]
    del AUDIT[:]
    _HOOKED[0] = True
    detail = None
    try:
        p.process()
    except BaseException as exc:  # noqa: BLE001 - the element may not accept a non-numeric value
        detail = type(exc).__name__
    finally:
        _HOOKED[0] = False
    return "accepted", list(AUDIT), detail


def judge_factory_explicit(expr: str) -> Tuple[str, Optional[str]]:
    """Third entry point: the Python API of the sweep factory with the optional `expression_evaluator=` argument given
    explicitly (a default evaluator, as a caller who only wants to share one would pass)."""
    import verif_ext
    from semantiva.data_processors.parametric_sweep_factory import ParametricSweepFactory, SequenceSpec
    from semantiva.examples.test_utils import FloatDataCollection
    from semantiva.utils.safe_eval import ExpressionEvaluator

    try:
        ParametricSweepFactory.create(element=verif_ext.VPairSource, element_kind="DataSource", collection_output=FloatDataCollection,
                                      vars={"x": SequenceSpec([3.0]), "t": SequenceSpec([2.0])}, parametric_expressions={"a": expr},
                                      expression_evaluator=ExpressionEvaluator())
    except Exception as exc:
        return "rejected", f"{type(exc).__name__}: {exc}"[:160]
    return "accepted", None


def replay_chunk(cases: List[Dict[str, Any]]):
    out = {"n": 0, "unrealisable": 0, "viol": [], "accepted": 0, "rejected": 0}
    for c in cases:
        expr = concretise(c)
        if expr is None:
            out["unrealisable"] += 1
            continue
        out["n"] += 1
        verdict, audit, detail = judge(expr)
        path = "/".join(f"{s['k']}.{s['f']}" for s in c["stack"]) + ("/" if c["stack"] else "") + c["cur"]
        if verdict == "other-error":
            out["viol"].append((f"wrong-error:{path}", f"{expr!r}: rejected with {detail}, not with the expression error", {"expr": expr, "case": c}))
            continue
        out[verdict] += 1
        if c["safe"] and verdict != "accepted":
            out["viol"].append((f"over-rejection:{path}", f"{expr!r} uses only whitelisted syntax but was rejected: {detail}", {"expr": expr, "case": c}))
        if not c["safe"] and verdict == "accepted":
            first = next((f"{s['k']}.{s['f']}" for s in c["stack"] if True), c["cur"])
            hole_chain = "/".join(f"{s['k']}.{s['f']}" for s in c["stack"])
            out["viol"].append((f"accepted-forbidden:via={hole_chain or 'root'}",
                                f"{expr!r} contains a non-whitelisted element ({path}) but was accepted for compilation", {"expr": expr, "case": c}))
        if audit:
            out["viol"].append((f"evaluation-escapes:{path}", f"evaluating accepted {expr!r} raised audit events {audit}", {"expr": expr}))
        # the same expression as a sweep parameter of a node configuration
        fverdict, faudit, fdetail = judge_factory(expr)
        hole_chain = "/".join(f"{s['k']}.{s['f']}" for s in c["stack"])
        if not c["safe"] and fverdict == "accepted":
            out["viol"].append((f"accepted-forbidden:sweep-factory:via={hole_chain or 'root'}",
                                f"{expr!r} contains a non-whitelisted element ({path}) but a parameter_sweep with this expression was built", {"expr": expr, "case": c}))
        if c["safe"] and fverdict == "rejected" and "Invalid parametric expression" in (fdetail or ""):
            out["viol"].append((f"over-rejection:sweep-factory:{path}", f"{expr!r} uses only whitelisted syntax but the sweep factory rejected it: {fdetail}", {"expr": expr, "case": c}))
        if faudit:
            out["viol"].append((f"evaluation-escapes:sweep-factory:{path}", f"running a sweep over accepted {expr!r} raised audit events {faudit}", {"expr": expr}))
        if not c["safe"]:
            # the same forbidden element with LITERALS in the sibling positions (`not 0`, `~7`, `(7).real`, ...): acceptance of
            # an element must not depend on what its neighbours are
            FILLER_MODE[0] = "const"
            try:
                expr2 = concretise(c)
            finally:
                FILLER_MODE[0] = "name"
            if expr2 is not None and expr2 != expr:
                v2 = judge(expr2)[0]
                if v2 == "accepted":
                    out["viol"].append((f"accepted-forbidden:literal-siblings:via={hole_chain or 'root'}",
                                        f"{expr2!r} contains a non-whitelisted element ({path}) but was accepted for compilation", {"expr": expr2, "case": c}))
            xverdict, _xd = judge_factory_explicit(expr)
            if xverdict == "accepted":
                out["viol"].append((f"accepted-forbidden:sweep-factory-api:via={hole_chain or 'root'}",
                                    f"{expr!r} contains a non-whitelisted element ({path}) but ParametricSweepFactory.create(..., expression_evaluator=ExpressionEvaluator()) built a sweep with it", {"expr": expr, "case": c}))
    return out


ESCAPES = [
    "__import__('os').getcwd()", "().__class__.__mro__[1].__subclasses__()", "(lambda: 1)()", "[i for i in (1,)]",
    "f'{x}'", "(y := 1)", "x[0]", "x.real", "abs(*[x])", "open('/etc/passwd')", "getattr(x, 'real')", "eval('1')",
    "{1: 2}", "{1}", "x if x else __import__('sys')", "str(object=__import__('os').getcwd())", "globals()", "x @ t",
    "[64, 64]", "[]", "{}", "set()", "(1, [2, 3])", "{'mode': 'fast'}",
    "not x", "x is t", "x in (t,)", "~x", "x << 1", "print(x)", "type(x)", "x.__class__", "[x][0]", "abs.__self__",
    "abs", "float", "str", "__builtins__", "(min if x else max)",       # a whitelisted function / an environment entry used as a VALUE
]
HOSTS = ["{}", "abs({})", "max(x, {})", "round(x, ndigits={})", "str(object={})", "int({})", "(x + {})", "({} * t)", "(-{})",
         "(x if {} else t)", "({} if x else t)", "(x if t else {})", "(x < {})", "({} < x)", "(x and {})", "(x, {})",
         "min(x, t, {})", "float(x={})", "bool({})", "(x ** {})", "(1 < x < {})",
         # the hole AFTER a call (of the very function the idiom may name): acceptance of a position must not depend on its siblings
         "(abs(x), {})", "max(abs(x), {})", "(float(x) + abs(t), {})", "(x if abs(x) else {})", "(abs(x) and {})", "str(str(x), {})",
         "(min(x, t), max(x, t), {})"]


def corpus_check(run: core.Run) -> None:
    n = 0
    for host in HOSTS:
        for esc in ESCAPES:
            expr = host.format(esc)
            try:
                ast.parse(expr, mode="eval")
            except SyntaxError:
                continue
            n += 1
            verdict, audit, detail = judge(expr)
            if verdict != "rejected":
                pos = host.replace("{}", "<hole>")
                run.violation(f"accepted-forbidden:corpus:{pos}",
                              f"escape idiom {esc!r} planted in {pos!r} gives {expr!r}: {verdict}"
                              + (f", audit events during evaluation {audit}" if audit else ""), {"expr": expr})
            xverdict, _xd = judge_factory_explicit(expr)
            if xverdict != "rejected":
                pos = host.replace("{}", "<hole>")
                run.violation(f"accepted-forbidden:sweep-factory-api:corpus:{pos}",
                              f"escape idiom {esc!r} planted in {pos!r} gives {expr!r}: ParametricSweepFactory.create(..., expression_evaluator=ExpressionEvaluator()) built a sweep with it", {"expr": expr})
            fverdict, faudit, _fd = judge_factory(expr)
            if fverdict != "rejected":
                pos = host.replace("{}", "<hole>")
                run.violation(f"accepted-forbidden:sweep-factory:corpus:{pos}",
                              f"escape idiom {esc!r} planted in {pos!r} gives {expr!r}: a parameter_sweep with this expression was built"
                              + (f", audit events while running it {faudit}" if faudit else ""), {"expr": expr})
    # SCALE: the same idioms inside an expression too deep for a recursive walk (a generated sum of 700 terms, 400 nested
    # negations): whatever the checker does then (reject, or give up with a RecursionError), it must not ACCEPT
    deep_hosts = [" + ".join(["x"] * 700) + " + round(x, ndigits={})", " + ".join(["x"] * 700) + " + abs({})",
                  "-(" * 400 + "str(object={})" + ")" * 400, "max(" * 300 + "{}" + ", x)" * 300,
                  "(" + " + ".join(["x"] * 700) + ", {})", "(" + " + ".join(["x"] * 80) + ", {})"]
    import sys as _sys
    for host in deep_hosts:
        for esc in ESCAPES[:12] + ESCAPES[-5:]:
            expr = host.format(esc)
            try:
                ast.parse(expr, mode="eval")
            except (SyntaxError, RecursionError, MemoryError):
                continue
            n += 1
            # ... under the interpreter's default recursion limit and with little stack left (a lowered limit / a deep caller)
            for limit in (None, 160):
                old_limit = _sys.getrecursionlimit()
                for entry, fn_ in (("evaluator", judge), ("sweep-factory-api", lambda e: judge_factory_explicit(e) + (None,))):
                    try:
                        if limit:
                            _sys.setrecursionlimit(limit)
                        verdict = fn_(expr)[0]
                    except RecursionError:
                        verdict = "other-error"
                    finally:
                        _sys.setrecursionlimit(old_limit)
                    if verdict == "accepted":
                        run.violation(f"accepted-forbidden:deep-expression:{entry}" + (":little-stack" if limit else ""),
                                      f"escape idiom {esc!r} inside an expression of {len(expr)} characters ({host[:24]}...)"
                                      + (f" with the recursion limit at {limit}" if limit else "") + f": accepted by the {entry}", {"expr": expr})
    run.evaluations += n
    run.extra["escape_corpus_expressions"] = n
    # acceptance must depend on the declared variables of THIS compilation, whatever was compiled before
    # (same evaluator object, and through the sweep factory in one process)
    from semantiva.utils.safe_eval import ExpressionError, ExpressionEvaluator as _EE
    for expr in ("x + t", "abs(t) * x", "(x if t else 1)", "min(x, t)"):
        ev_ = _EE()
        ev_.compile(expr, {"x", "t"})
        run.evaluations += 1
        try:
            ev_.compile(expr, {"x"})
            run.violation("history:evaluator-reuse", f"{expr!r} was accepted with declared variables {{x}} after the same evaluator compiled it "
                          "with {x, t}: 't' is not a declared variable", {"expr": expr})
        except ExpressionError:
            pass
    # ... and whatever evaluators were CONSTRUCTED before: an evaluator with extra functions must not widen the default one
    import math as _math
    for before in (lambda: None, lambda: _EE(allowed_funcs={"sqrt": _math.sqrt, "hyp": _math.hypot})):
        before()
        for expr in ("sqrt(x)", "hyp(x, t)", "abs(sqrt(x))"):
            run.evaluations += 1
            for entry, verdict in (("evaluator", judge(expr)[0]), ("sweep-factory", judge_factory(expr)[0]), ("sweep-factory-api", judge_factory_explicit(expr)[0])):
                if verdict == "accepted":
                    run.violation(f"history:evaluator-with-extra-functions:{entry}", f"{expr!r} calls a function that is not on the whitelist; it was accepted by a DEFAULT "
                                  f"evaluator ({entry}) after an evaluator with allowed_funcs={{sqrt, hyp}} had been constructed in the process", {"expr": expr})
    from semantiva.pipeline import Pipeline
    def sweep_cfg(names):
        return [{"processor": "VPairSource", "derive": {"parameter_sweep": {"parameters": {"a": "t * k"},
                 "variables": {n: {"values": [1.0, 2.0]} for n in names}, "collection": "FloatDataCollection"}}}]
    try:
        Pipeline(sweep_cfg(["t", "k"]))
        run.evaluations += 1
        try:
            Pipeline(sweep_cfg(["t"]))
            run.violation("history:sweep-factory-reuse", "a sweep whose expression 't * k' uses the undeclared variable k was accepted "
                          "after another sweep declaring {t, k} had been built in the process", {"expr": "t * k"})
        except Exception:
            pass
    except Exception as exc:
        raise core.MachineryError(f"valid sweep rejected: {exc}")
    # the context KEY of a from_context variable is not a sweep variable: an expression naming it must be rejected
    def ctx_sweep(expr):
        return [{"processor": "VPairSource", "derive": {"parameter_sweep": {"parameters": {"a": expr},
                 "variables": {"t": {"from_context": "ts"}, "u": {"values": [1.0]}}, "collection": "FloatDataCollection"}}}]
    try:
        Pipeline(ctx_sweep("t + u"))
        run.evaluations += 1
    except Exception as exc:
        raise core.MachineryError(f"valid from_context sweep rejected: {exc}")
    for expr in ("t / max(ts)", "ts", "u + ts[0]" if False else "(t, ts)", "abs(ts) + t"):
        run.evaluations += 1
        try:
            Pipeline(ctx_sweep(expr))
            run.violation("accepted-forbidden:sweep-factory:from-context-key", f"{expr!r} names the context key 'ts' of a from_context variable "
                          "(the sweep variable is 't'); a parameter_sweep with this expression was built", {"expr": expr})
        except Exception:
            pass
    # builtins must not be reachable from an evaluated expression's globals
    from semantiva.utils.safe_eval import ExpressionEvaluator
    ev = ExpressionEvaluator()
    fn = ev.compile("abs(x)", {"x"})
    fn(x=1.0)
    b = ev.env.get("__builtins__")
    reachable = b is not None and (getattr(b, "__import__", None) is not None or (isinstance(b, dict) and "__import__" in b))
    if reachable:
        run.violation("builtins-reachable", "after evaluating an accepted expression the evaluation globals expose the real "
                      "__builtins__ (incl. __import__): any name check that is bypassed reaches imports", {"expr": "abs(x)"})


def replay_one(payload):
    from .. import seams
    seams.setup()
    v, audit, d = judge(payload["expr"])
    print(f"replay: {payload['expr']!r} -> {v} {audit} {d}")
    return 0


def check(tier: str) -> int:
    from .. import seams

    seams.setup()
    astgrammar.write()
    run = core.Run("C11", tier)
    g = gram()
    run.rule = (f"cases = one-hole paths (depth <= 2 quick / <= 3 thorough) through all {len(g['expr'])} expression kinds of the running interpreter with "
                "canonical safe fillers, emitted by TLC with the policy verdict and compiled by ExpressionEvaluator; plus an "
                "escape-idiom corpus planted at 20 host positions; non-trivial = forbidden paths that are realisable as source")
    run.assumptions = ["trees that do not survive parse(unparse(t)) = t are not strings a user can write and are dropped",
                       "confinement of evaluation is observed with sys.addaudithook (import/open/exec/compile/os.*) -- a measurement",
                       "acceptance is compositional, so one-hole paths with safe siblings cover every child position"]
    depth = "d2" if tier == "quick" else "d3"
    res = tlc.run_tlc("SafeExpr", f"SafeExpr.{depth}.TRUE", coverage=True, timeout=3000)
    run.add_tlc(res)
    run.require_tlc_ok(res, f"SafeExpr.{depth}.TRUE")
    run.constants = {"MaxDepth": 2 if tier == "quick" else 3}
    sens = tlc.run_tlc("SafeExpr", "SafeExpr.d2.FALSE", timeout=900, expect_violation=True)
    if sens.violated != "VisitorMatchesPolicy":
        raise core.MachineryError("sensitivity: a visitor that skips call keywords should violate VisitorMatchesPolicy")
    run.add_tlc(sens, count_states=False)
    corpus_check(run)
    res, path = tlc.emit_cases("SafeExpr", f"SafeExpr.{depth}.emit", timeout=6000)
    run.add_tlc(res, count_states=False)
    tot = {"n": 0, "unrealisable": 0, "accepted": 0, "rejected": 0}
    try:
        for r in pmap(replay_chunk, tlc.iter_emitted(path), chunk=4000 if tier == 'thorough' else 800):
            for k in tot:
                tot[k] += r[k]
            for key, what, rep in r["viol"]:
                run.violation(key, what, rep)
    finally:
        os.unlink(path)
    if tot["n"] < 1000:
        raise core.MachineryError(f"too few realisable paths: {tot}")
    run.evaluations += tot["n"]
    run.traces_validated += tot["n"]
    run.nontrivial = tot["rejected"]
    run.extra["paths"] = tot
    run.sample({"path": "Call.keywords/keyword.value/Call", "expr": "abs(x, k=abs(x))", "policy": "rejected"})
    run.exhaustive = True
    return run.finish()
