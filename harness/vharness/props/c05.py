"""C05 -- identities discriminate: a change of meaning changes semantic and config ID.

TLC: Identity.tla checks SemanticChangesMeaning for every semantic rewrite (processor, parameter
value at depth 1 and 2, node dropped / duplicated / swapped, every field of a sweep definition)
applied at every applicable position of every seed configuration (and of every configuration one
rewrite away); each edge is emitted, both texts are rendered and the code's identities compared:
semantic id AND config id must differ, and the affected nodes' UUID or node semantic id; within
one pipeline all node UUIDs must be distinct, even for textually identical nodes."""
from __future__ import annotations

from typing import Any, Dict, List

from .. import core, tlc
from ..identity_common import identities, identities_inspect_way, render, summary
from ..pool import pmap


def edges(cfgname: str) -> List[Dict[str, Any]]:
    res = tlc.run_tlc("MC_Identity", cfgname, workers=1, parse_emitted=True, timeout=3000)
    if not res.emitted:
        raise core.MachineryError(f"{cfgname}: no edges emitted")
    return res.emitted


def check_chunk(es: List[Dict[str, Any]]):
    out = {"n": 0, "viol": [], "by_action": {}}
    for e in es:
        if e["cosmetic"]:
            continue
        out["n"] += 1
        out["by_action"][e["action"]] = out["by_action"].get(e["action"], 0) + 1
        ta, tb = render(e["from"]), render(e["to"])
        a, b = summary(identities(ta)), summary(identities(tb))
        act = e["action"]
        if a["semantic_id"] == b["semantic_id"]:
            out["viol"].append((f"semantic-id-blind:{act}", f"{act}: semantic_id unchanged ({a['semantic_id'][:20]}...)\n--- from\n{ta}--- to\n{tb}", {"edge": e}))
        if a["config_id"] == b["config_id"]:
            out["viol"].append((f"config-id-blind:{act}", f"{act}: config_id unchanged\n--- from\n{ta}--- to\n{tb}", {"edge": e}))
        if sorted(a["nodes"]) == sorted(b["nodes"]) and act not in ("SwapNodes",):
            out["viol"].append((f"node-ids-blind:{act}", f"{act}: no node uuid / node semantic id changed\n--- from\n{ta}--- to\n{tb}", {"edge": e}))
        if out["n"] % 3 == 0 or act in ("SetParam", "SetSubParam"):
            # the same question on the path `semantiva inspect` takes (inspect the node list, then build the payload from the
            # same configuration object and that inspection)
            a2, b2 = summary(identities_inspect_way(ta)), summary(identities_inspect_way(tb))
            if a2["semantic_id"] == b2["semantic_id"] or a2["config_id"] == b2["config_id"]:
                out["viol"].append((f"semantic-id-blind:inspect-way:{act}", f"{act}: semantic_id / config_id unchanged when the payload is built the way `semantiva inspect` "
                                    f"builds it\n--- from\n{ta}--- to\n{tb}", {"edge": e}))
            if sorted(a2["nodes"]) == sorted(b2["nodes"]) and act not in ("SwapNodes",):
                out["viol"].append((f"node-ids-blind:inspect-way:{act}", f"{act}: no node uuid / node semantic id changed (inspect way)\n--- from\n{ta}--- to\n{tb}", {"edge": e}))
            if a2 != a:
                out["viol"].append((f"inspect-way-differs:{act}", f"the identities of one configuration differ between build_inspection_payload(config) and the "
                                    f"inspect-then-payload way\n{ta}", {"edge": e}))
        for side, s in (("from", a), ("to", b)):
            uu = [u for u, _ in s["nodes"]]
            if len(set(uu)) != len(uu):
                out["viol"].append(("uuid-collision", f"two nodes of one pipeline share a UUID ({side} side of {act})\n{ta if side == 'from' else tb}", {"edge": e}))
    return out


def api_and_list_checks(run) -> None:
    """Two more places where a definition enters: (1) a sweep class generated through the Python API
    (ParametricSweepFactory.create) and given as `processor: <class>` without a derive block -- sweeps that differ in one
    field of their definition are different nodes; (2) LIST-valued parameters at depth 1 and 2 -- changing any single element,
    also one in the middle of a long list, changes the identities.  (2) is repeated with every SEMANTIVA_* environment
    variable that canonicalisation consults (observed: vharness.envprobe) set to a few values."""
    import verif_ext
    from semantiva.data_processors.parametric_sweep_factory import ParametricSweepFactory, RangeSpec, SequenceSpec
    from semantiva.examples.test_utils import FloatDataCollection, FloatValueDataSource, FloatValueDataSourceWithDefault
    from semantiva.inspection import build_inspection_payload
    from .. import envprobe

    def ids(nodes):
        return summary(build_inspection_payload({"pipeline": {"nodes": nodes}}))

    def mk(element=FloatValueDataSource, vars_=None, expr="2 * t", mode="combinatorial", broadcast=False):
        return ParametricSweepFactory.create(element=element, element_kind="DataSource", collection_output=FloatDataCollection,
                                             vars=vars_ or {"t": SequenceSpec([1.0, 2.0, 3.0])}, parametric_expressions={"value": expr},
                                             mode=mode, broadcast=broadcast)
    base = ids([{"processor": mk()}])
    variants = {"expression": mk(expr="3 * t"), "values": mk(vars_={"t": SequenceSpec([1.0, 2.0, 4.0])}), "range": mk(vars_={"t": RangeSpec(1.0, 3.0, steps=3)}),
                "element": mk(element=FloatValueDataSourceWithDefault), "mode": mk(vars_={"t": SequenceSpec([1.0, 2.0, 3.0]), "u": SequenceSpec([1.0, 2.0, 3.0])}, mode="by_position"),
                "mode-comb": mk(vars_={"t": SequenceSpec([1.0, 2.0, 3.0]), "u": SequenceSpec([1.0, 2.0, 3.0])})}
    seen = {"base": base}
    for name, cls in variants.items():
        run.evaluations += 1
        got = ids([{"processor": cls}])
        for other, o in seen.items():
            if other == "base" or (name, other) == ("mode-comb", "mode"):
                if got["semantic_id"] == o["semantic_id"] or got["config_id"] == o["config_id"] or sorted(got["nodes"]) == sorted(o["nodes"]):
                    run.violation(f"semantic-id-blind:api-sweep-class:{name}", f"two sweep classes built with ParametricSweepFactory.create that differ in their {name} "
                                  f"({other} vs {name}) and are given as `processor: <class>` share semantic id / config id / node ids: {got} vs {o}", {"api": name})
        seen[name] = got

    def list_nodes(xs, deep):
        params = {"gain": 2.0, "opts": {"alpha": 1.0, "weights": list(xs)}} if deep else {"gain": 2.0, "weights": list(xs)}
        return [{"processor": "FloatValueDataSource", "parameters": {"value": 1.0}}, {"processor": "VNestedOperation", "parameters": params}]

    def list_check(tag):
        for deep in (False, True):
            for n in (3, 9, 40):
                xs = [float(i) for i in range(n)]
                ref = ids(list_nodes(xs, deep))
                for pos in sorted({0, 1, n // 2, n - 2, n - 1}):
                    run.evaluations += 1
                    ys = list(xs)
                    ys[pos] += 0.5
                    got = ids(list_nodes(ys, deep))
                    if got["semantic_id"] == ref["semantic_id"] or got["config_id"] == ref["config_id"] or sorted(got["nodes"]) == sorted(ref["nodes"]):
                        run.violation(f"semantic-id-blind:list-element{tag}", f"changing element {pos} of a {n}-element list parameter (depth {2 if deep else 1}) leaves "
                                      f"semantic id / config id / node ids unchanged{tag and ' with ' + tag}", {"pos": pos, "n": n, "deep": deep})
                        return
    list_check("")
    names = envprobe.discover(lambda: ids(list_nodes([1.0, 2.0, 3.0], True)))
    run.extra["environment_variables_consulted"] = names
    for assign in envprobe.settings(names):
        with envprobe.with_env(assign):
            list_check(f":{next(iter(assign))}={next(iter(assign.values()))}")


def replay_one(payload):
    from .. import seams
    seams.setup()
    r = check_chunk([payload["edge"]])
    for k, w, _ in r["viol"]:
        print(f"VIOLATION property=C05 replay=<given>\n  {k}\n  {w}")
    return 1 if r["viol"] else 0


def check(tier: str) -> int:
    from .. import seams
    seams.setup()
    run = core.Run("C05", tier)
    run.rule = ("edges = semantic rewrite steps of Identity.tla from 4 seed configurations (sweeps, nested parameters, textually "
                "identical nodes) and from every configuration one rewrite away; both endpoints rendered to YAML and identified "
                "by build_inspection_payload; non-trivial = edges touching a sweep definition or a nested parameter")
    run.assumptions = ["the `collection` field of a sweep has a single admissible value in the library and is not mutated",
                       "non-equivalent expression mutations: added constant, swapped operands of '-', + <-> * at the root and at an inner node"]
    depth = "d2" if tier == "quick" else "d3"
    res = tlc.run_tlc("MC_Identity", f"Identity.{depth}.check", coverage=True, timeout=3000)
    run.add_tlc(res)
    run.require_tlc_ok(res, f"Identity.{depth}.check")
    es = edges(f"Identity.{depth}.emit")
    acts: Dict[str, int] = {}
    for r in pmap(check_chunk, es, chunk=100):
        run.evaluations += r["n"]
        for k, v in r["by_action"].items():
            acts[k] = acts.get(k, 0) + v
        for k, w, rep in r["viol"]:
            run.violation(k, w, rep)
    need = {"SetProcessor", "SetParam", "SetSubParam", "DropNode", "DupNode", "SwapNodes", "SetSweep_vals", "SetSweep_val1",
            "SetSweep_mode", "SetSweep_bc", "SetSweep_const", "SetSweep_noncomm", "SetSweep_el", "SetSweep_oproot", "SetSweep_opinner", "SetSweep_inttype", "SetSweep_vname", "SetSweep_valmid",
            "SetSweep_rhi", "SetSweep_rlo", "SetSweep_rsteps", "SetSweep_rendp", "SetSweep_rlog"}
    if not need <= set(acts):
        raise core.MachineryError(f"vacuity: semantic actions never exercised: {sorted(need - set(acts))}")
    run.extra["edges_by_action"] = acts
    api_and_list_checks(run)
    run.traces_validated = run.evaluations
    run.nontrivial = sum(v for k, v in acts.items() if k.startswith("SetSweep") or k == "SetSubParam")
    run.sample({"edge": es[0]["action"], "to": render(es[0]["to"])})
    run.exhaustive = True
    return run.finish()
