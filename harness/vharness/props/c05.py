"""C05 -- identities discriminate: a change of meaning changes semantic and config ID.

TLC: Identity.tla checks SemanticChangesMeaning for every semantic rewrite (processor, parameter
value at depth 1 and 2, node dropped / duplicated / swapped, every field of a sweep definition)
applied at every applicable position of every seed configuration (and of every configuration one
rewrite away); each edge is emitted, both texts are rendered and the code's identities compared:
semantic id AND config id must differ, and the affected nodes' UUID or node semantic id; within
one pipeline all node UUIDs must be distinct, even for textually identical nodes."""
from __future__ import annotations

from typing import Any, Dict, List

from .. import core, tlc
from ..identity_common import identities, render, summary
from ..pool import pmap


def edges(cfgname: str) -> List[Dict[str, Any]]:
    res = tlc.run_tlc("MC_Identity", cfgname, workers=1, parse_emitted=True, timeout=3000)
    if not res.emitted:
        raise core.MachineryError(f"{cfgname}: no edges emitted")
    return res.emitted


def check_chunk(es: List[Dict[str, Any]]):
    out = {"n": 0, "viol": [], "by_action": {}}
    for e in es:
        if e["cosmetic"]:
            continue
        out["n"] += 1
        out["by_action"][e["action"]] = out["by_action"].get(e["action"], 0) + 1
        ta, tb = render(e["from"]), render(e["to"])
        a, b = summary(identities(ta)), summary(identities(tb))
        act = e["action"]
        if a["semantic_id"] == b["semantic_id"]:
            out["viol"].append((f"semantic-id-blind:{act}", f"{act}: semantic_id unchanged ({a['semantic_id'][:20]}...)\n--- from\n{ta}--- to\n{tb}", {"edge": e}))
        if a["config_id"] == b["config_id"]:
            out["viol"].append((f"config-id-blind:{act}", f"{act}: config_id unchanged\n--- from\n{ta}--- to\n{tb}", {"edge": e}))
        if sorted(a["nodes"]) == sorted(b["nodes"]) and act not in ("SwapNodes",):
            out["viol"].append((f"node-ids-blind:{act}", f"{act}: no node uuid / node semantic id changed\n--- from\n{ta}--- to\n{tb}", {"edge": e}))
        for side, s in (("from", a), ("to", b)):
            uu = [u for u, _ in s["nodes"]]
            if len(set(uu)) != len(uu):
                out["viol"].append(("uuid-collision", f"two nodes of one pipeline share a UUID ({side} side of {act})\n{ta if side == 'from' else tb}", {"edge": e}))
    return out


def replay_one(payload):
    from .. import seams
    seams.setup()
    r = check_chunk([payload["edge"]])
    for k, w, _ in r["viol"]:
        print(f"VIOLATION property=C05 replay=<given>\n  {k}\n  {w}")
    return 1 if r["viol"] else 0


def check(tier: str) -> int:
    from .. import seams
    seams.setup()
    run = core.Run("C05", tier)
    run.rule = ("edges = semantic rewrite steps of Identity.tla from 4 seed configurations (sweeps, nested parameters, textually "
                "identical nodes) and from every configuration one rewrite away; both endpoints rendered to YAML and identified "
                "by build_inspection_payload; non-trivial = edges touching a sweep definition or a nested parameter")
    run.assumptions = ["the `collection` field of a sweep has a single admissible value in the library and is not mutated",
                       "non-equivalent expression mutations: added constant, swapped operands of '-', + <-> * at the root and at an inner node"]
    depth = "d2" if tier == "quick" else "d3"
    res = tlc.run_tlc("MC_Identity", f"Identity.{depth}.check", coverage=True, timeout=3000)
    run.add_tlc(res)
    run.require_tlc_ok(res, f"Identity.{depth}.check")
    es = edges(f"Identity.{depth}.emit")
    acts: Dict[str, int] = {}
    for r in pmap(check_chunk, es, chunk=100):
        run.evaluations += r["n"]
        for k, v in r["by_action"].items():
            acts[k] = acts.get(k, 0) + v
        for k, w, rep in r["viol"]:
            run.violation(k, w, rep)
    need = {"SetProcessor", "SetParam", "SetSubParam", "DropNode", "DupNode", "SwapNodes", "SetSweep_vals", "SetSweep_val1",
            "SetSweep_mode", "SetSweep_bc", "SetSweep_const", "SetSweep_noncomm", "SetSweep_el", "SetSweep_oproot", "SetSweep_opinner", "SetSweep_inttype", "SetSweep_vname", "SetSweep_valmid",
            "SetSweep_rhi", "SetSweep_rlo", "SetSweep_rsteps", "SetSweep_rendp", "SetSweep_rlog"}
    if not need <= set(acts):
        raise core.MachineryError(f"vacuity: semantic actions never exercised: {sorted(need - set(acts))}")
    run.extra["edges_by_action"] = acts
    run.traces_validated = run.evaluations
    run.nontrivial = sum(v for k, v in acts.items() if k.startswith("SetSweep") or k == "SetSubParam")
    run.sample({"edge": es[0]["action"], "to": render(es[0]["to"])})
    run.exhaustive = True
    return run.finish()
