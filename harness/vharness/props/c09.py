"""C09 -- a run-space launch equals its independent runs and is linked by stable IDs.

TLC: Cli.tla's launch part (LaunchStart, RunOk, RunFails, RunsDone, LaunchEnd) with LaunchBracket
and RunsInPlanOrder; every traced launch behaviour (planned 1..3 x failing run at every index)
is concretised and run through `semantiva run`; the trace files are compared with the spec's
record sequence, with truthful planned/completed counts, with the foreign keys on every
pipeline_start, and -- code vs code -- with STANDALONE runs of the same pipeline on run i's
context (normalised traces and sink output must be equal).  Identity laws: spec id equal in
`semantiva inspect` and in the trace, invariant under cosmetic rewrites of the run_space block,
different for different plans; idempotency-key launch ids reproducible; inputs id changing
exactly when a referenced file's content changes."""
from __future__ import annotations

import copy
import json
import os
import re
import shutil
import tempfile
import zlib
from pathlib import Path
from typing import Any, Dict, List, Optional, Tuple

import yaml

from .. import core, tlc
from ..pool import pmap
from .c10 import first_diff, normalise
from .c17 import emitted_cases, run_cli, tlc_check

FK = ("run_space_launch_id", "run_space_attempt", "run_space_index", "run_space_context")


def base_doc(tmp: Path, *, trace_mode: str, rs: Optional[Dict[str, Any]], detail: str = "hash") -> Dict[str, Any]:
    nodes = [
        {"processor": "FloatValueDataSource"},
        {"processor": "VTouchOperation"},
        {"processor": "VHandleProbe", "context_key": "spool"},      # leaves a value in the context that cannot be described (no repr, no JSON)
        {"processor": "VInterruptOperation"},
        {"processor": "FloatMultiplyOperation"},
        {"processor": "FloatCollectValueProbe", "context_key": "seen"},
        {"processor": "FloatMultiplyOperationWithDefault"},       # would pick up a leaked `factor`... uses ctx factor
        {"processor": "rename:seen:kept"},
        # a DERIVED node (its preprocessor metadata is attached to the run's canonical spec): run i of a launch = a standalone run
        {"processor": "VScaleProbe", "context_key": "swept", "derive": {"parameter_sweep": {"parameters": {"factor": "t"}, "variables": {"t": {"values": [1.0, 2.0]}}}}},
        {"processor": "FloatTxtFileSaver", "parameters": {"path": str(tmp / "out.txt")}},
    ]
    doc: Dict[str, Any] = {"extensions": ["semantiva-examples", "verif_ext"], "pipeline": {"nodes": nodes},
                           "trace": {"driver": "jsonl", "output_path": str(tmp / ("trace.jsonl" if trace_mode == "file" else "trace")),
                                     "options": {"detail": detail}}}
    if rs is not None:
        doc["run_space"] = rs
    return doc


def read_trace(tmp: Path) -> List[Dict[str, Any]]:
    recs = []
    for f in sorted(list(tmp.glob("trace.jsonl")) + list((tmp / "trace").rglob("*.jsonl")) if (tmp / "trace").exists() or (tmp / "trace.jsonl").exists() else []):
        for line in f.read_text().splitlines():
            if line.strip():
                recs.append(json.loads(line))
    return recs


def split_runs(recs) -> Tuple[List[Dict[str, Any]], List[List[Dict[str, Any]]]]:
    launch = [r for r in recs if r["record_type"] in ("run_space_start", "run_space_end")]
    starts = sorted((r for r in recs if r["record_type"] == "pipeline_start"), key=lambda r: r.get("run_space_index", 0) if r.get("run_space_index") is not None else 0)
    runs = []
    for s in starts:
        rid = s["run_id"]
        runs.append([s] + [r for r in recs if r["record_type"] == "ser" and r["identity"]["run_id"] == rid]
                    + [r for r in recs if r["record_type"] == "pipeline_end" and r["run_id"] == rid])
    return launch, runs


def strip_fk(recs):
    out = []
    for r in normalise(recs):
        r = dict(r)
        for k in FK:
            r.pop(k, None)
        out.append(r)
    return out


def launch_case(job: Dict[str, Any]) -> Dict[str, Any]:
    """Run one launch scenario through the CLI and its standalone counterparts; return violations."""
    from .. import seams
    seams.setup()
    planned, fail_at = job["planned"], job["failAt"]
    viol: List[Tuple[str, str]] = []
    tmp = Path(tempfile.mkdtemp(prefix="vlaunch-"))
    try:
        factors: List[Any] = [float(i + 2) for i in range(planned)]
        triggers = [0.0] * planned
        interrupt = job.get("failKind") == "interrupt"
        if fail_at and interrupt:
            triggers[fail_at - 1] = 1.0
        elif fail_at:
            factors[fail_at - 1] = "bad"
        rs = {"combine": "combinatorial", "max_runs": 100, "blocks": [{"mode": "by_position", "context": {"factor": factors, "trigger": triggers}}]}
        doc = base_doc(tmp, trace_mode=job["trace_mode"], rs=rs, detail=job["detail"])
        (tmp / "p.yaml").write_text(yaml.safe_dump(doc, sort_keys=False))
        argv = ["run", str(tmp / "p.yaml"), "--context", "value=1.5"] + job["launch_args"]
        code, out, err = run_cli(argv, tmp)
        exp_code = (5 if interrupt else 4) if fail_at else 0
        if code != exp_code:
            viol.append(("exit", f"launch exit {code}, expected {exp_code}; stderr {err[-200:]!r}"))
        recs = read_trace(tmp)
        launch, runs = split_runs(recs)
        ls = [r for r in launch if r["record_type"] == "run_space_start"]
        le = [r for r in launch if r["record_type"] == "run_space_end"]
        started = fail_at if fail_at else planned
        completed = fail_at - 1 if fail_at else planned
        if len(ls) != 1 or len(le) != 1:
            viol.append(("bracket", f"{len(ls)} run_space_start / {len(le)} run_space_end records (failing run: {fail_at})"))
        else:
            s, e = ls[0], le[0]
            if s.get("run_space_planned_run_count") != planned or s.get("run_space_total_runs") != planned:
                viol.append(("counts", f"run_space_start planned {s.get('run_space_planned_run_count')}/{s.get('run_space_total_runs')}, truth {planned}"))
            summ = e.get("summary", {})
            if summ.get("planned_runs") != planned or summ.get("completed_runs") != completed:
                viol.append(("counts", f"run_space_end summary {summ}, truth planned={planned} completed={completed}"))
            want_status = ("interrupted" if interrupt else "failed") if fail_at else None
            if summ.get("status") != want_status:
                viol.append(("counts", f"run_space_end status {summ.get('status')!r}, expected {want_status!r} (failing run = {fail_at}, {job.get('failKind')})"))
            if e.get("run_space_launch_id") != s.get("run_space_launch_id") or e.get("run_space_attempt") != s.get("run_space_attempt"):
                viol.append(("fk", "run_space_end launch id/attempt differ from run_space_start"))
            if job.get("expect_launch_id") and s.get("run_space_launch_id") != job["expect_launch_id"]:
                viol.append(("launch-id", f"explicit launch id {job['expect_launch_id']} not used: {s.get('run_space_launch_id')}"))
            if s.get("run_space_attempt") != job["attempt"]:
                viol.append(("fk", f"attempt {s.get('run_space_attempt')} != {job['attempt']}"))
        if len(runs) != started:
            viol.append(("plan-order", f"{len(runs)} runs started, expected {started} (stop after the failing run)"))
        launch_id = ls[0].get("run_space_launch_id") if ls else None
        sink = tmp / "out.txt"
        final_sink = sink.read_text() if sink.exists() else None      # written by the last completed run
        for i, rr in enumerate(runs):
            st = rr[0]
            want_ctx = {"value": 1.5, "factor": factors[i], "trigger": triggers[i]}
            if st.get("run_space_launch_id") != launch_id or st.get("run_space_attempt") != job["attempt"] \
                    or st.get("run_space_index") != i or st.get("run_space_context") != want_ctx:
                viol.append(("fk", f"pipeline_start of run {i}: launch_id/attempt/index/context = "
                             f"{[st.get(k) for k in FK]}, expected [{launch_id}, {job['attempt']}, {i}, {want_ctx}]"))
            # standalone run with run i's context (code vs code)
            t2 = Path(tempfile.mkdtemp(prefix="vsolo-"))
            try:
                d2 = base_doc(t2, trace_mode=job["trace_mode"], rs=None, detail=job["detail"])
                d2["pipeline"]["nodes"][-1]["parameters"]["path"] = str(tmp / "out.txt")   # same sink path => same node config
                (t2 / "p.yaml").write_text(yaml.safe_dump(d2, sort_keys=False))
                launch_sink = final_sink if (i == completed - 1) else None
                c2, _o, e2 = run_cli(["run", str(t2 / "p.yaml"), "--context", "value=1.5", "--context", f"factor={factors[i]}",
                                      "--context", f"trigger={triggers[i]}"], t2)
                solo = read_trace(t2)
                a, b = strip_fk(rr), strip_fk(solo)
                if a != b:
                    viol.append((f"independent:{'first' if i == 0 else 'later'}-run",
                                 f"run {i} of the launch differs from a standalone run with the same context at {first_diff(a, b)}"))
                if launch_sink is not None and sink.read_text() != launch_sink:
                    viol.append(("independent:sink", f"sink output of run {i}: launch {launch_sink!r} standalone {sink.read_text()!r}"))
                if (c2 == 0) != (i + 1 != fail_at):
                    viol.append(("independent:outcome", f"standalone run {i} exit {c2}, in the launch it {'failed' if i + 1 == fail_at else 'completed'}"))
            finally:
                shutil.rmtree(t2, ignore_errors=True)
        return {"job": job, "viol": viol, "launch_id": launch_id, "spec_id": ls[0].get("run_space_spec_id") if ls else None,
                "inputs_id": ls[0].get("run_space_inputs_id") if ls else None}
    finally:
        shutil.rmtree(tmp, ignore_errors=True)


def launch_chunk(jobs):
    return [launch_case(j) for j in jobs]


# ------------------------------------------------------------------------------ identity laws
def inspect_spec_id(doc: Dict[str, Any], tmp: Path, text: Optional[str] = None) -> Optional[str]:
    (tmp / "i.yaml").write_text(text if text is not None else yaml.safe_dump(doc, sort_keys=False))
    code, out, err = run_cli(["inspect", str(tmp / "i.yaml")], tmp)
    m = re.search(r"Run-Space Config ID:\s*(\S+)", out)
    return m.group(1) if m else None


def trace_ids(doc: Dict[str, Any], tmp: Path, extra: List[str], text: Optional[str] = None) -> Dict[str, Any]:
    shutil.rmtree(tmp / "trace", ignore_errors=True)
    (tmp / "p.yaml").write_text(text if text is not None else yaml.safe_dump(doc, sort_keys=False))
    run_cli(["run", str(tmp / "p.yaml"), "--context", "value=1.5"] + extra, tmp)
    ls = [r for r in read_trace(tmp) if r["record_type"] == "run_space_start"]
    return ls[0] if ls else {}


def identity_laws(run: core.Run) -> None:
    from .. import seams
    seams.setup()
    tmp = Path(tempfile.mkdtemp(prefix="vids-"))
    try:
        (tmp / "vals.csv").write_text("factor\n2.0\n3.0\n")
        plans = {
            "ctx2": {"combine": "combinatorial", "max_runs": 100, "blocks": [{"mode": "by_position", "context": {"factor": [2.0, 3.0]}}]},
            "minimal": {"blocks": [{"mode": "combinatorial", "context": {"factor": [2.0]}}]},
            "src": {"blocks": [{"mode": "by_position", "source": {"format": "csv", "path": "vals.csv"}}]},
            "two-blocks": {"combine": "by_position", "blocks": [{"mode": "by_position", "context": {"factor": [2.0, 4.0]}},
                                                                {"mode": "by_position", "context": {"extra": [1, 2]}}]},
        }
        # value types: plans that differ only in the TYPE or the exact text of a value are different plans
        def one(extra):
            return {"combine": "combinatorial", "max_runs": 100, "blocks": [{"mode": "by_position", "context": dict({"factor": [2.0, 3.0]}, **extra)}]}
        plans.update({
            "ints": {"combine": "combinatorial", "max_runs": 100, "blocks": [{"mode": "by_position", "context": {"factor": [2, 3]}}]},
            "str-trailing-newline": one({"label": ["first\nsecond\n", "x"]}),
            "str-no-trailing-newline": one({"label": ["first\nsecond", "x"]}),
            # (CRLF vs LF inside a string is NOT a different plan: RSCF v1 normalises line breaks by design)
            "bool": one({"flag": [True, False]}),
            "int01": one({"flag": [1, 0]}),
            "none": one({"flag": [None, None]}),
            "empty-str": one({"flag": ["", ""]}),
            # non-finite numbers (YAML .inf / .nan) are values like any other: same id in inspect and trace, and not the
            # id of the plan that holds their usual TEXT
            "inf": one({"gain": [float("inf"), float("-inf")]}),
            "nan": one({"gain": [float("nan"), 1.0]}),
            "nan-text": one({"gain": ["NaN", 1.0]}),
            "inf-text": one({"gain": ["Infinity", "-Infinity"]}),
            # text with a backslash before r / n (a LaTeX label, a Windows-style path): not a line break
            "backslash-r": one({"label": ["\\rho", "data\\runs.csv"]}),
            "backslash-n": one({"label": ["\\nho", "data\\nuns.csv"]}),
            # the same visible text in two Unicode normal forms is two different strings (and two different run contexts)
            "unicode-nfc": one({"label": ["caf\u00e9", "x"]}),
            "unicode-nfd": one({"label": ["cafe\u0301", "x"]}),
        })
        seen_ids: Dict[str, str] = {}
        for name, rs in plans.items():
            doc = base_doc(tmp, trace_mode="dir", rs=rs)
            insp = inspect_spec_id(doc, tmp)
            tr = trace_ids(doc, tmp, [])
            run.evaluations += 1
            if not insp or insp != tr.get("run_space_spec_id"):
                run.violation(f"spec-id:inspect-vs-trace:{'defaults-omitted' if name in ('minimal', 'src') else 'explicit'}",
                              f"plan {name}: `semantiva inspect` prints run-space spec id {insp} but the trace's run_space_start carries {tr.get('run_space_spec_id')}",
                              {"run_space": rs})
            # cosmetic rewrites of the block: key order, flow style, quoting
            def reorder(x):
                if isinstance(x, dict):
                    return {k: reorder(x[k]) for k in sorted(x, reverse=True)}
                if isinstance(x, list):
                    return [reorder(i) for i in x]
                return x
            doc2 = copy.deepcopy(doc)
            doc2["run_space"] = reorder(rs)
            text2 = yaml.safe_dump(doc2, sort_keys=False, default_flow_style=True)
            tr2 = trace_ids(doc2, tmp, [], text=text2)
            insp2 = inspect_spec_id(doc2, tmp, text=text2)
            if tr2.get("run_space_spec_id") != tr.get("run_space_spec_id") or insp2 != insp:
                run.violation("spec-id:cosmetic", f"plan {name}: spec id changes under key reordering / flow style: {tr.get('run_space_spec_id')} vs {tr2.get('run_space_spec_id')} (inspect {insp} vs {insp2})", {"run_space": rs})
            sid = tr.get("run_space_spec_id")
            if sid in seen_ids.values():
                run.violation("spec-id:collision", f"plans {name} and {[k for k, v in seen_ids.items() if v == sid]} share spec id {sid}", {"run_space": rs})
            seen_ids[name] = sid
        # single-point mutations of a plan change the spec id
        base = plans["ctx2"]
        muts = {"value": [("blocks", 0, "context", "factor", 1), 9.0], "mode": [("blocks", 0, "mode"), "combinatorial"],
                "combine": [("combine",), "by_position"], "max_runs": [("max_runs",), 7]}
        for mname, (path, val) in muts.items():
            rs = copy.deepcopy(base)
            tgt = rs
            for p in path[:-1]:
                tgt = tgt[p]
            tgt[path[-1]] = val
            tr = trace_ids(base_doc(tmp, trace_mode="dir", rs=rs), tmp, [])
            run.evaluations += 1
            if tr.get("run_space_spec_id") == seen_ids["ctx2"]:
                run.violation(f"spec-id:blind-to:{mname}", f"changing {path} of the plan does not change the spec id", {"run_space": rs})
        # launch ids
        doc = base_doc(tmp, trace_mode="dir", rs=plans["ctx2"])
        a = trace_ids(doc, tmp, ["--run-space-idempotency-key", "K1"]).get("run_space_launch_id")
        b = trace_ids(doc, tmp, ["--run-space-idempotency-key", "K1"]).get("run_space_launch_id")
        c = trace_ids(doc, tmp, ["--run-space-idempotency-key", "K2"]).get("run_space_launch_id")
        g1 = trace_ids(doc, tmp, []).get("run_space_launch_id")
        g2 = trace_ids(doc, tmp, []).get("run_space_launch_id")
        run.evaluations += 5
        a2 = trace_ids(doc, tmp, ["--run-space-idempotency-key", "K1", "--run-space-attempt", "2"])
        run.evaluations += 1
        if a2.get("run_space_launch_id") != a or a2.get("run_space_attempt") != 2:
            run.violation("launch-id:idempotency-attempt", f"a retry (attempt 2) with the same idempotency key must carry the same launch id and attempt 2: "
                          f"attempt 1 -> {a}, attempt 2 -> {a2.get('run_space_launch_id')} (attempt field {a2.get('run_space_attempt')})", {})
        if not a or a != b:
            run.violation("launch-id:idempotency-not-reproducible", f"same idempotency key gives launch ids {a} / {b}", {})
        if a == c:
            run.violation("launch-id:idempotency-key-ignored", f"different idempotency keys give the same launch id {a}", {})
        if g1 == g2:
            run.violation("launch-id:generated-not-unique", f"two launches without key share launch id {g1}", {})
        # inputs id: changes exactly when the file content changes
        doc = base_doc(tmp, trace_mode="dir", rs=plans["src"])
        i1 = trace_ids(doc, tmp, [])
        os.utime(tmp / "vals.csv", (1, 1))                 # mtime only
        i2 = trace_ids(doc, tmp, [])
        (tmp / "vals.csv").write_text("factor\n2.0\n5.0\n7.0\n")  # content (and number of rows)
        i3 = trace_ids(doc, tmp, [])
        run.evaluations += 3
        # ... and the launch that follows the edit runs the file as it is NOW (same interpreter, same path)
        starts = sorted((r for r in read_trace(tmp) if r["record_type"] == "pipeline_start"), key=lambda r: r.get("run_space_index", 0))
        got_rows = [(r.get("run_space_context") or {}).get("factor") for r in starts]
        if got_rows != [2.0, 5.0, 7.0] or i3.get("run_space_planned_run_count") != 3:
            run.violation("inputs:stale-source-rows", f"after the source file was rewritten to rows [2.0, 5.0, 7.0] the next launch in the same interpreter "
                          f"planned {i3.get('run_space_planned_run_count')} runs with factor values {got_rows}", {})
        if not i1.get("run_space_inputs_id") or i1.get("run_space_inputs_id") != i2.get("run_space_inputs_id"):
            run.violation("inputs-id:mtime-sensitive", f"inputs id changed although only the file's mtime changed: {i1.get('run_space_inputs_id')} / {i2.get('run_space_inputs_id')}", {})
        if i3.get("run_space_inputs_id") == i1.get("run_space_inputs_id"):
            run.violation("inputs-id:content-blind", "inputs id did not change when the referenced file's content changed", {})
        # a relative source path is relative to the pipeline file, wherever the command is started from
        other = tmp / "elsewhere"
        other.mkdir(exist_ok=True)
        (other / "vals.csv").write_text("factor\n9.0\n")       # an unrelated file of the same name under the other cwd
        shutil.rmtree(tmp / "trace", ignore_errors=True)
        (tmp / "p.yaml").write_text(yaml.safe_dump(doc, sort_keys=False))
        code, _o, err = run_cli(["run", str(tmp / "p.yaml"), "--context", "value=1.5"], other)
        ls = [r for r in read_trace(tmp) if r["record_type"] == "run_space_start"]
        run.evaluations += 1
        if code != 0 or not ls or ls[0].get("run_space_inputs_id") != i3.get("run_space_inputs_id") \
                or ls[0].get("run_space_planned_run_count") != 3:
            run.violation("inputs-id:cwd-dependent", f"started from another working directory the launch exits {code} / inputs id "
                          f"{ls[0].get('run_space_inputs_id') if ls else None} (planned {ls[0].get('run_space_planned_run_count') if ls else None}); "
                          f"from the pipeline's directory: inputs id {i3.get('run_space_inputs_id')}, 3 runs; stderr {err[-160:]!r}", {})
        if i3.get("run_space_spec_id") != i1.get("run_space_spec_id"):
            run.violation("spec-id:depends-on-file-content", "spec id changed with the referenced file's content", {})
    finally:
        shutil.rmtree(tmp, ignore_errors=True)


def replay_one(payload):
    r = launch_case(payload["job"])
    for k, m in r["viol"]:
        print(f"VIOLATION property=C09 replay=<given>\n  {k}: {m}")
    return 1 if r["viol"] else 0


def check(tier: str) -> int:
    from .. import seams

    seams.setup()
    run = core.Run("C09", tier)
    run.rule = ("launch scenarios = traced run-space behaviours of Cli.tla (planned 1..3 x failing run at every index) x "
                "{file, directory} output x launch-id options {generated, explicit, idempotency key} x attempts {1, 2} x detail; "
                "each compared with the spec's record sequence and with standalone runs; plus identity laws over 4 plans; "
                "non-trivial = launches with >= 2 runs or a failing run")
    run.assumptions = ["volatile fields and the run-space foreign keys are removed before comparing a launch run with its standalone run",
                       "launches run in-process through semantiva.cli.main (drivers garbage-collected before files are read)"]
    tlc_check(run, tier)
    cases = [c for c in emitted_cases(tier) if c["sc"]["traced"] and c["sc"]["runSpace"] == "ok" and c["sc"]["defect"] == "none"
             and not (c["sc"]["validate"] or c["sc"]["dryRun"] or c["sc"]["rsDryRun"])]
    if len(cases) < 6:
        raise core.MachineryError("too few launch behaviours emitted")
    jobs = []
    variants = [("dir", [], 1, None), ("file", [], 1, None), ("dir", ["--run-space-launch-id", "nightly:2026-10-05 #1 \u03b1", "--run-space-attempt", "2"], 2, "nightly:2026-10-05 #1 \u03b1"),
                ("dir", ["--run-space-idempotency-key", "IDEM"], 1, None),
                ("file", ["--run-space-idempotency-key", "IDEM3", "--run-space-attempt", "3"], 3, None)]
    if tier == "thorough":
        variants += [("file", ["--run-space-attempt", "2"], 2, None), ("file", ["--run-space-idempotency-key", "IDEM2"], 1, None)]
    for c in cases:
        for vi, (mode, args, attempt, exp) in enumerate(variants):
            jobs.append({"planned": c["sc"]["planned"], "failAt": c["sc"]["failAt"], "failKind": c["sc"]["failKind"], "trace_mode": mode, "launch_args": args,
                         "attempt": attempt, "expect_launch_id": exp, "detail": ["hash", "all", "repr"][vi % 3],
                         "spec_records": c["records"]})
    for res in pmap(launch_chunk, jobs, chunk=2, tasks_per_child=4):
        for r in res:
            run.evaluations += 1
            j = r["job"]
            run.nontrivial += (j["planned"] >= 2 or j["failAt"] > 0)
            for k, m in r["viol"]:
                run.violation(f"{k}:{'failing' if j['failAt'] else 'ok'}-launch",
                              f"launch planned={j['planned']} failAt={j['failAt']}({j['failKind']}) mode={j['trace_mode']} args={j['launch_args']}: {m}", {"job": j})
    run.traces_validated = run.evaluations
    identity_laws(run)
    run.sample({"job": {k: v for k, v in jobs[0].items() if k != "spec_records"}})
    run.exhaustive = True
    return run.finish()
