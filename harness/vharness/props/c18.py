"""C18 -- repeated execution leaves no per-run residue in the process.

TLC: History.tla states RegistryBoundedByDistinctConfigs over histories of Construct / Process /
Inspect operations; it holds when generated classes are reused (RegPerRun = 0) and is violated
when a run registers classes (RegPerRun > 0), which is how the pinned tree behaves.
impl->spec: programs from the component library are run N in {50, 150, 450} times after a warm-up
in the four ways of repeating a run (one reused Pipeline, fresh Pipelines, a run-space launch,
a queue worker); after each checkpoint the size of every category of get_component_registry()
and a census of live gc-tracked instances of framework / harness types are sampled.  The samples
are a trace validated against the spec's bound: every counter must be equal at 150 and 450."""
from __future__ import annotations

import collections
import gc
import threading
import time
from typing import Any, Dict, List

from .. import core, tlc
from ..pool import pmap

PROGRAMS = {
    "plain": [{"processor": "FloatValueDataSource", "parameters": {"value": 2.0}},
              {"processor": "FloatMultiplyOperation", "parameters": {"factor": 3.0}},
              {"processor": "FloatCollectValueProbe", "context_key": "seen"},
              {"processor": "rename:seen:kept"}, {"processor": "FloatDataSink"}],
    "sweep-slice": [{"processor": "FloatValueDataSource",
                     "derive": {"parameter_sweep": {"parameters": {"value": "2 * t"}, "variables": {"t": {"values": [1.0, 2.0]}},
                                                    "collection": "FloatDataCollection"}}},
                    {"processor": "slice:FloatMultiplyOperation:FloatDataCollection", "parameters": {"factor": 2.0}},
                    {"processor": "FloatCollectionSumOperation"}, {"processor": "template:\"v={t_values}\":label"}],
    "payload-io": [{"processor": "FloatPayloadSource"}, {"processor": "VCtxWriteOperation"}, {"processor": "delete:w"},
                   {"processor": "FloatPayloadSink"}],
}
PROGRAMS["qualified-names"] = [{"processor": "semantiva.examples.test_utils:FloatValueDataSource", "parameters": {"value": 2.0}},
                               {"processor": "vpkg.ext2:VQualifiedScale"},      # a module nobody registered
                               {"processor": "vpkg.ext2:VQualifiedScale"}, {"processor": "FloatDataSink"}]
PROGRAMS["mixed-key-param"] = [{"processor": "FloatValueDataSource", "parameters": {"value": 2.0}},
                               {"processor": 'template:"{m}":label'}, {"processor": "FloatDataSink"}]
PROGRAMS["failing"] = [{"processor": "FloatValueDataSource", "parameters": {"value": 2.0}}, {"processor": "VBoomOperation"}]
PROGRAM_CTX = {"mixed-key-param": {"m": {1: "a", "b": 2}}}      # a parameter value that is a mapping with mixed keys
CHECKPOINTS = (50, 150, 450)
CLASS_MACHINERY = None


def registry_sizes() -> Dict[str, int]:
    from semantiva.core.semantiva_component import get_component_registry

    return {k: len(v) for k, v in get_component_registry().items()}


def instance_census() -> Dict[str, int]:
    """Live gc-tracked INSTANCES of framework / harness classes (classes themselves are counted by
    the registry sizes), plus transport queue contents."""
    gc.collect()
    c: Dict[str, int] = collections.Counter()
    for o in gc.get_objects():
        t = type(o)
        if t is type or isinstance(o, type):
            continue
        mod = getattr(t, "__module__", "") or ""
        if mod.startswith("semantiva") or mod.startswith("verif_ext") or mod == "concurrent.futures._base":
            c[f"{t.__name__}"] += 1
        elif mod.split(".")[0] in RESOURCE_MODULES:
            # library objects that ARE resources: loggers and handlers, threads, open files, sockets, processes.
            # (Instances of inspect / weakref / _abc / collections types grow with every generated class and are
            # consequences of the recorded registry growth; they are not counted separately.)
            c[f"{mod}.{t.__name__}"] += 1
    return dict(c)


RESOURCE_MODULES = {"logging", "threading", "_io", "io", "subprocess", "socket", "selectors", "tempfile", "multiprocessing",
                    "asyncio", "queue", "sqlite3", "mmap"}


def container_census(live: Dict[str, Any] | None = None) -> Dict[str, int]:
    """Sizes of the process-wide containers of the framework: every module-level and class-level dict / list / set /
    deque of every loaded semantiva.* module (the component registry's categories are measured by registry_sizes)."""
    import sys

    out: Dict[str, int] = {}
    kinds = (dict, list, set, collections.deque)
    for mname, mod in list(sys.modules.items()):
        if not mname.startswith("semantiva") or mod is None:
            continue
        for name, val in list(vars(mod).items()):
            if isinstance(val, kinds) and (not name.startswith("__") or name == "__warningregistry__"):
                out[f"{mname}.{name}"] = len(val)
            elif isinstance(val, type) and getattr(val, "__module__", None) == mname:
                for an, av in list(vars(val).items()):
                    if isinstance(av, kinds) and not an.startswith("__"):
                        out[f"{mname}.{val.__qualname__}.{an}"] = len(av)
    for name, obj in (live or {}).items():      # containers owned by the long-lived objects of this way of repeating
        try:
            out[name] = len(obj)
        except TypeError:
            pass
    # process-level resources
    import os
    import warnings
    import tempfile
    out["os.environ"] = len(os.environ)
    out["sys.path"] = len(sys.path)
    out["sys.modules"] = len(sys.modules)
    out["warnings.filters"] = len(warnings.filters)
    out["threads"] = threading.active_count()
    try:
        out["open-file-descriptors"] = len(os.listdir("/proc/self/fd"))
    except OSError:
        pass
    priv = os.environ.get("VERIF_C18_TMP")
    if priv and tempfile.gettempdir() == priv:
        out["temp-dir-entries"] = len(os.listdir(priv))
    import logging
    out["logging.handlers"] = len(logging.getLogger().handlers) + sum(
        len(getattr(lg, "handlers", [])) for lg in logging.Logger.manager.loggerDict.values())
    out["logging.Logger.manager.loggerDict"] = len(logging.Logger.manager.loggerDict)
    import atexit
    ncb = getattr(atexit, "_ncallbacks", None)
    if callable(ncb):
        out["atexit.callbacks"] = ncb()
    return out


def owned_containers(roots: Dict[str, Any]) -> Dict[str, int]:
    """Sizes of the containers OWNED by the long-lived objects of a way of repeating (the reused Pipeline with its trace
    driver, orchestrator, transport and stop-watches; the queue master): every dict / list / set / deque reachable through
    instance attributes of framework objects, keyed by its attribute path (siblings of one collection are summed)."""
    out: Dict[str, int] = {}
    seen = set()
    kinds = (dict, list, set, frozenset, collections.deque)

    def is_fw(o) -> bool:
        m = getattr(type(o), "__module__", "") or ""
        return hasattr(o, "__dict__") and not isinstance(o, type) and (m.startswith("semantiva") or m.startswith("verif") or m == "abc")

    def walk(o, path, depth):
        # one count per (path, object): what a path shows must not depend on whether ANOTHER path reached the object
        # first (with a global "seen", the last run's context was attributed to the transport's retained messages
        # while those were among the first 200 items and to _last_nodes afterwards -- a growth of 1 that is not one)
        if (path, id(o)) in seen or depth > 6:
            return
        seen.add((path, id(o)))
        if isinstance(o, kinds) or isinstance(o, tuple):
            if not isinstance(o, tuple):
                out[path] = out.get(path, 0) + len(o)
            items = list(o.values()) if isinstance(o, dict) else list(o)
            for x in items[:200]:
                if is_fw(x) or isinstance(x, kinds) or isinstance(x, tuple):
                    walk(x, path + "[]", depth + 1)
        elif is_fw(o):
            for k, v in list(vars(o).items()):
                if is_fw(v) or isinstance(v, kinds) or isinstance(v, tuple):
                    walk(v, f"{path}.{k}", depth + 1)
    for name, r in roots.items():
        walk(r, name, 0)
    return out


def one_mode(job) -> Dict[str, Any]:
    from .. import seams
    seams.setup()
    from semantiva.context_processors import ContextType
    from semantiva.data_types import NoDataType
    from semantiva.pipeline import Payload, Pipeline

    prog, mode = job["prog"], job["mode"]
    nodes = PROGRAMS[prog]
    # a private temp directory for this process: what the framework leaves there is counted
    import os as _os
    import shutil as _shutil
    import tempfile as _tempfile
    _priv = _tempfile.mkdtemp(prefix="vc18tmp-")
    _os.environ["VERIF_C18_TMP"] = _priv
    _os.environ["TMPDIR"] = _priv
    _tempfile.tempdir = None
    samples: Dict[int, Dict[str, Any]] = {}

    def payload():
        return Payload(NoDataType(), ContextType(dict(PROGRAM_CTX.get(prog, {}))))

    runner = None
    timeouts = [0]              # consecutive queue jobs whose Future did not complete in time
    cleanup = lambda: None
    live: Dict[str, Any] = {}
    roots: Dict[str, Any] = {}
    if mode == "reused":
        p = Pipeline(nodes)
        roots["Pipeline"] = p
        runner = lambda: p.process(payload())
    elif mode == "fresh":
        runner = lambda: Pipeline(nodes).process(payload())
    elif mode in ("fresh-traced", "reused-traced", "fresh-traced-file"):
        import shutil
        import tempfile
        from semantiva.trace.drivers.jsonl import JsonlTraceDriver

        tdir = tempfile.mkdtemp(prefix="vc18-")
        cleanup = lambda: shutil.rmtree(tdir, ignore_errors=True)
        if mode == "fresh-traced":      # a new Pipeline AND a new trace driver per run
            runner = lambda: Pipeline(nodes, trace=JsonlTraceDriver(tdir, detail="hash")).process(payload())
        elif mode == "fresh-traced-file":      # ... with the SINGLE-FILE layout (a path with an extension): every run appends to one file
            runner = lambda: Pipeline(nodes, trace=JsonlTraceDriver(tdir + "/all.ser.jsonl", detail="hash")).process(payload())
        else:
            p3 = Pipeline(nodes, trace=JsonlTraceDriver(tdir, detail="hash"))
            roots["Pipeline"] = p3
            runner = lambda: p3.process(payload())
    elif mode == "cli":
        # the command-line way: the same pipeline FILE (declaring its extensions) is loaded and launched again and again
        import contextlib
        import io
        import yaml
        from semantiva import cli as _cli

        ydir = _tempfile.mkdtemp(prefix="vc18cli-")
        ypath = _os.path.join(ydir, "p.yaml")
        doc = {"extensions": ["semantiva-examples", "verif_ext"], "pipeline": {"nodes": nodes}}
        if PROGRAM_CTX.get(prog):
            return {"prog": prog, "mode": mode, "samples": {}}        # (mapping-valued context cannot be given on the command line)
        with open(ypath, "w") as fh:
            yaml.safe_dump(doc, fh, sort_keys=False)

        def runner():
            with contextlib.redirect_stdout(io.StringIO()), contextlib.redirect_stderr(io.StringIO()):
                try:
                    _cli.main(["run", ypath, "-q"])
                except SystemExit:
                    pass
    elif mode == "launch":
        # exactly what cli._run does: one Pipeline object, set_run_metadata + process per planned run
        p2 = Pipeline(nodes)
        roots["Pipeline"] = p2

        def runner():
            p2.set_run_metadata({"run_space_index": 0, "run_space_context": {}})
            p2.process(payload())
    else:  # queue worker
        import semantiva.execution.transport.in_memory as im
        from semantiva.execution.executor.executor import SequentialSemantivaExecutor
        from semantiva.execution.job_queue.queue_orchestrator import QueueSemantivaOrchestrator
        from semantiva.execution.job_queue.worker import worker_loop
        from semantiva.logger import Logger

        # ENVIRONMENT: the registry profile that travels with every job also names a module that cannot be imported in this
        # process (an extension that is installed on the submitting host only)
        try:
            from semantiva.registry.processor_registry import ProcessorRegistry as _PR
            _PR.register_modules(["vpkg_not_installed_here.ext"])
        except Exception:
            pass
        tr = im.InMemorySemantivaTransport()
        live["InMemorySemantivaTransport._queues(channel-table)"] = tr._queues
        lg = Logger()
        master = QueueSemantivaOrchestrator(transport=tr, logger=lg)
        roots["QueueSemantivaOrchestrator"] = master
        stop = threading.Event()
        mt = threading.Thread(target=master.run_forever, daemon=True)
        wt = threading.Thread(target=worker_loop, args=(0, tr, SequentialSemantivaExecutor(), stop, lg, 0.002), daemon=True)
        mt.start()
        wt.start()

        def runner():
            # (the payload context carries a key of the CALLER's that happens to be called "job_id", e.g. a LIMS number)
            fut = master.enqueue(nodes, data=NoDataType(), context=ContextType(dict(PROGRAM_CTX.get(prog, {}), job_id="lims-0042")), return_future=True)
            try:
                fut.result(timeout=10)
                timeouts[0] = 0
            except TimeoutError:
                timeouts[0] += 1   # a job that never completes is C15's business; the residue left behind is measured all the same
            except Exception:
                if prog != "failing":
                    raise

        def cleanup():
            stop.set()
            master.running = False
            mt.join(timeout=2)
            wt.join(timeout=2)
    if prog == "failing":
        inner = runner

        def runner():               # every run raises (ValueError from the second node); the caller carries on
            try:
                inner()
            except Exception:
                pass
    try:
        for _ in range(3):          # warm-up
            runner()
        done = 0
        import time as _time

        def take_sample():
            cont = container_census(live)
            for k_, v_ in owned_containers(roots).items():
                cont.setdefault(k_, v_)
            return {"registry": registry_sizes(), "instances": instance_census(), "containers": cont}
        durations: List[float] = []
        stalled = None
        samples["early"] = take_sample()        # after the warm-up runs, before the first counted one
        for cp in job["checkpoints"]:
            while done < cp and stalled is None:
                t_ = _time.time()
                runner()
                d_ = _time.time() - t_
                durations.append(d_)
                done += 1
                if timeouts[0] >= 5:
                    # the jobs do not come back at all: stop repeating, measure what the attempts left behind
                    stalled = {"at": done, "took": round(d_, 2), "median_of_first_runs": round(sorted(durations)[len(durations) // 2], 2), "reason": "timeouts"}
                if len(durations) > 10:
                    med = sorted(durations[:10])[5]
                    if d_ > max(20.0, 50.0 * med):
                        # the statement itself: run N costs (hundreds of times) more than the first runs did
                        stalled = {"at": done, "took": round(d_, 2), "median_of_first_runs": round(med, 4)}
            if stalled is not None:
                samples["stalled"] = dict(take_sample(), info=stalled)
                break
            samples[cp] = take_sample()
    finally:
        cleanup()
        _shutil.rmtree(_priv, ignore_errors=True)
    return {"prog": prog, "mode": mode, "samples": samples}


def modes_chunk(jobs):
    return [one_mode(j) for j in jobs]


def growth(r: Dict[str, Any], a: int, b: int) -> List[tuple]:
    out = []
    sa, sb = r["samples"][a], r["samples"][b]
    for cat in sorted(set(sa["registry"]) | set(sb["registry"])):
        d = sb["registry"].get(cat, 0) - sa["registry"].get(cat, 0)
        if d != 0:
            out.append(("registry", cat, d))
    for cname in sorted(set(sa["containers"]) | set(sb["containers"])):
        d = sb["containers"].get(cname, 0) - sa["containers"].get(cname, 0)
        if d > 0:
            out.append(("container", cname, d))
    for tname in sorted(set(sa["instances"]) | set(sb["instances"])):
        d = sb["instances"].get(tname, 0) - sa["instances"].get(tname, 0)
        if d > 2:           # small constant slack for gc timing (trusted measurement)
            out.append(("instances", tname, d))
    return out


def check(tier: str) -> int:
    from .. import seams
    seams.setup()
    run = core.Run("C18", tier)
    run.rule = ("histories = program x way of repeating {reused Pipeline, fresh Pipelines, launch-style reuse with run metadata, "
                "queue worker} x N in checkpoints after 3 warm-up runs; counters = size of every get_component_registry() category "
                "and live instances of framework/harness types; non-trivial = (history, counter) pairs compared between N=150 and 450")
    run.assumptions = ["instance counts may differ by <= 2 between checkpoints (gc timing); registry sizes must be exactly equal",
                       "growth is attributed to a (way of repeating, counter) pair; the program only matters for which counters exist"]
    res = tlc.run_tlc("History", "History.check", coverage=True, timeout=900)
    run.add_tlc(res)
    run.require_tlc_ok(res, "History.check")
    sens = tlc.run_tlc("History", "History.perrun", timeout=600, expect_violation=True)
    if sens.violated != "RegistryBoundedByDistinctConfigs":
        raise core.MachineryError("sensitivity: per-run registration should violate RegistryBoundedByDistinctConfigs")
    run.add_tlc(sens, count_states=False)
    cps = (20, 60, 180) if tier == "quick" else CHECKPOINTS
    progs = list(PROGRAMS)
    jobs = [{"prog": p, "mode": m, "checkpoints": cps} for p in progs for m in ("reused", "fresh", "launch", "queue", "fresh-traced", "reused-traced", "cli", "fresh-traced-file")]
    results = []
    for chunk in pmap(modes_chunk, jobs, chunk=1, tasks_per_child=1):
        results += [r for r in chunk if r["samples"]]
    pairs = 0
    for r in results:
        run.evaluations += cps[-1]
        if "stalled" in r["samples"]:
            info = r["samples"]["stalled"]["info"]
            mode_ = r["mode"].replace("-traced-file", "").replace("-traced", "").replace("cli", "fresh")
            if info.get("reason") != "timeouts":
              run.violation(f"run-cost-grows:{mode_}", f"program {r['prog']}, {r['mode']}: run {info['at']} took {info['took']} s, the first runs took "
                          f"{info['median_of_first_runs']} s each -- the cost of run N depends on N", {"prog": r["prog"], "mode": r["mode"]})
            if "early" in r["samples"]:
                for kind, name, d in growth(r, "early", "stalled"):
                    run.violation(f"{kind}-growth:{mode_}:{name}", f"program {r['prog']}, {r['mode']}: {kind} counter {name} grows by {d} between the warm-up and run {info['at']}",
                                  {"prog": r["prog"], "mode": r["mode"]})
            continue
        g = growth(r, cps[1], cps[2])
        pairs += len(r["samples"][cps[1]]["registry"]) + len(r["samples"][cps[1]]["instances"])
        per_run = {}
        for kind, name, d in g:
            per_run[f"{kind}:{name}"] = round(d / (cps[2] - cps[1]), 2)
            run.violation(f"{kind}-growth:{r['mode'].replace('-traced-file', '').replace('-traced', '').replace('cli', 'fresh')}:{name}",      # traced variants / command line: same way of repeating (fresh objects per run)
                          f"program {r['prog']}, {r['mode']}: {kind} counter {name} grows by {d} between run {cps[1]} and run {cps[2]} "
                          f"({d / (cps[2] - cps[1]):.2f} per run) -- the cost of run N depends on N", {"prog": r["prog"], "mode": r["mode"]})
        run.extra.setdefault("growth_per_run", {})[f"{r['prog']}/{r['mode']}"] = per_run
    run.nontrivial = pairs
    run.traces_validated = len(results)
    run.extra["checkpoints"] = list(cps)
    run.sample({"history": f"{results[0]['prog']}/{results[0]['mode']}", "registry_at_checkpoints": {str(k): sum(v["registry"].values()) for k, v in results[0]["samples"].items()}})
    return run.finish()


def replay_one(payload):
    r = one_mode({"prog": payload["prog"], "mode": payload["mode"], "checkpoints": (20, 60, 180)})
    g = growth(r, 60, 180)
    print("replay: growth", g)
    return 1 if g else 0
