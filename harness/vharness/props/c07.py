"""C07 -- what a SER says about its node is true.

TLC: TraceStream.tla defines each SER's content (created/updated keys, resolved parameters with
value and channel, required-keys / type checks, pre/post payload) from the step's pre/post state
and checks Chain / ErrorKeepsPayload / ResolvedHasKeys.  Every emitted behaviour is replayed as
a real traced run under a host time zone chosen per case and each real SER is compared field by
field with the spec's; digests are checked to be functions of content and to chain; timestamps
are checked against harness-measured time.time() brackets (trusted measurement)."""
from __future__ import annotations

import calendar
import os
import re
import time
import zlib
from datetime import datetime, timezone
from typing import Any, Dict, List, Optional

from .. import core, tlc
from ..gamma import ABSENT, g_ctx, g_data, g_data_plain, g_prog, g_val, prog_key
from ..pool import pmap
from .c06 import DETAILS, MODES, tlc_checks

TZS = ["UTC0", "JST-9", "PST8", "<+0545>-5:45"]
RFC3339 = re.compile(r"^(\d{4})-(\d\d)-(\d\d)T(\d\d):(\d\d):(\d\d)(\.\d+)?(Z|[+-]\d\d:\d\d)$")


def parse_ts(s: str) -> Optional[float]:
    m = RFC3339.match(s or "")
    if not m:
        return None
    y, mo, d, h, mi, sec, frac, off = m.groups()
    base = calendar.timegm((int(y), int(mo), int(d), int(h), int(mi), int(sec)))
    val = base + (float(frac) if frac else 0.0)
    if off != "Z":
        sign = 1 if off[0] == "+" else -1
        val -= sign * (int(off[1:3]) * 3600 + int(off[4:6]) * 60)
    return val


def _check(checks, code):
    return next((c for c in checks if c.get("code") == code), None)


def check_sers(case, obs, tz, digests) -> List[tuple]:
    bad: List[tuple] = []
    recs = obs["records"]
    sers = [r for r in recs if r.get("record_type") == "ser"]
    exp = [r for r in case["out"] if r["t"] == "ser"]
    if len(sers) != len(exp):
        return []  # stream shape is C06's business
    nodes = getattr(obs.get("pipeline"), "nodes", []) or []
    prev_out = None
    for i, (r, e) in enumerate(zip(sers, exp)):
        kind = e["kind"]
        cd = r.get("context_delta", {})
        if sorted(cd.get("created_keys", [])) != sorted(e["created"]):
            bad.append((f"created:{kind}", f"SER {i + 1} created_keys {cd.get('created_keys')} but the context diff is {sorted(e['created'])}"))
        if sorted(cd.get("updated_keys", [])) != sorted(e["updated"]):
            bad.append((f"updated:{kind}", f"SER {i + 1} updated_keys {cd.get('updated_keys')} but the context diff is {sorted(e['updated'])}"))
        proc = r.get("processor", {})
        if i < len(nodes):
            cls = type(nodes[i].processor)
            want_ref = f"{cls.__module__}.{cls.__qualname__}"
            if proc.get("ref") != want_ref:
                bad.append((f"ref:{kind}", f"SER {i + 1} processor.ref {proc.get('ref')} but the class that ran is {want_ref}"))
        if e["resolved"] and isinstance(e["params"], dict):
            params, srcs = proc.get("parameters", {}), proc.get("parameter_sources", {})
            for p, pv in e["params"].items():
                want_v = g_val(pv["val"])
                if p not in params or p not in srcs:
                    bad.append((f"param-missing:{kind}.{p}:{pv['src']}",
                                f"SER {i + 1} omits resolved parameter '{p}' (actually {want_v!r} from {pv['src']}); reported {params} / {srcs}"))
                elif srcs[p] != pv["src"] or params[p] != want_v:
                    bad.append((f"param-wrong:{kind}.{p}:{pv['src']}",
                                f"SER {i + 1} parameter '{p}' reported {params[p]!r} from {srcs[p]}; actually {want_v!r} from {pv['src']}"))
        pre = r.get("assertions", {}).get("preconditions", [])
        post = r.get("assertions", {}).get("postconditions", [])
        rk = _check(pre, "required_keys_present")
        if rk is None or (rk["result"] == "PASS") != (not e["missing"]) or sorted(rk.get("details", {}).get("missing_keys", [])) != sorted(e["missing"]):
            bad.append((f"check-required-keys:{kind}", f"SER {i + 1} required_keys_present={rk} but actually missing {sorted(e['missing'])} of {sorted(e['need'])}"))
        it = _check(pre, "input_type_ok")
        if it is None or (it["result"] == "PASS") != bool(e["inTypeOk"]):
            bad.append((f"check-input-type:{kind}", f"SER {i + 1} input_type_ok={it} but input type {'matches' if e['inTypeOk'] else 'does not match'}"))
        if e["status"] == "succeeded":
            ot = _check(post, "output_type_ok")
            if ot is None or (ot["result"] == "PASS") != bool(e["outTypeOk"]):
                bad.append((f"check-output-type:{kind}", f"SER {i + 1} output_type_ok={ot} but output type {'matches' if e['outTypeOk'] else 'does not match'}"))
            cw = _check(post, "context_writes_realized")
            post_keys = set(g_ctx(e["post"]["ctx"]))
            realised = set(cd.get("created_keys", [])) | set(cd.get("updated_keys", [])) <= post_keys
            if cw is None or (cw["result"] == "PASS") != realised:
                bad.append((f"check-writes:{kind}", f"SER {i + 1} context_writes_realized={cw} but realised={realised}"))
        tm = r.get("timing", {})
        if not (isinstance(tm.get("wall_ms"), (int, float)) and tm["wall_ms"] >= 0 and isinstance(tm.get("cpu_ms"), (int, float)) and tm["cpu_ms"] >= 0):
            bad.append(("duration", f"SER {i + 1} negative or missing duration {tm}"))
        summ = r.get("summaries") or {}
        if summ and "sha256" in (summ.get("input_data") or {}):
            din, dout = summ["input_data"]["sha256"], (summ.get("output_data") or {}).get("sha256")
            cin, cout = (summ.get("pre_context") or {}).get("sha256"), (summ.get("post_context") or {}).get("sha256")
            for tag, content, dg in (("data", ("d",) + tuple(map(_freeze, g_data_plain(e["pre"]["data"]))), din),
                                     ("data", ("d",) + tuple(map(_freeze, g_data_plain(e["post"]["data"]))), dout),
                                     ("ctx", ("c", _freeze(g_ctx(e["pre"]["ctx"]))), cin),
                                     ("ctx", ("c", _freeze(g_ctx(e["post"]["ctx"]))), cout)):
                if dg is None:
                    continue
                old = digests.setdefault(content, dg)
                if old != dg:
                    bad.append((f"digest-functional:{tag}", f"equal {tag} content {content} has two digests {old} / {dg}"))
            if prev_out is not None and (prev_out[0] != din or prev_out[1] != cin):
                bad.append(("digest-chain", f"SER {i} output digests {prev_out} != SER {i + 1} input digests {(din, cin)}"))
            prev_out = (dout, cout)
    # ---- timestamps: RFC 3339, true UTC instant, non-decreasing, whatever the host TZ
    seq: List[tuple] = []
    for r in recs:
        if r.get("record_type") in ("pipeline_start", "pipeline_end"):
            seq.append((r["record_type"], r.get("timestamp")))
        elif r.get("record_type") == "ser":
            seq.append(("ser.started_at", r.get("timing", {}).get("started_at")))
            seq.append(("ser.finished_at", r.get("timing", {}).get("finished_at")))
    last = None
    for name, ts in seq:
        val = parse_ts(ts) if isinstance(ts, str) else None
        if val is None:
            bad.append((f"timestamp-format:{name}", f"{name} = {ts!r} is not RFC 3339"))
            continue
        if not (obs["t0"] - 0.0015 <= val <= obs["t1"] + 0.0015):
            bad.append((f"timestamp-utc:{name}:{'utc-host' if tz == 'UTC0' else 'non-utc-host'}",
                        f"{name} = {ts} denotes {val:.3f} but the call ran in [{obs['t0']:.3f}, {obs['t1']:.3f}] UTC (host TZ={tz}): off by {val - obs['t0']:.0f}s"))
        if last is not None and val < last - 1e-9:
            bad.append(("timestamp-order", f"{name} = {ts} goes back in time along the stream"))
        last = val if last is None else max(last, val)
    return bad


def representation_updates() -> List[tuple]:
    """A key overwritten with a value that compares equal but IS another value (another type, hence another record
    text and another context digest: 3 -> 3.0, True -> 1.0, "3.0" -> 3.0) has been updated; a key overwritten with the
    very same value has not.  (The models carry numbers as one sort, so this dimension is decided here: two nodes,
    [source(v), probe -> a], over pairs (old value of a, v); -0.0 vs 0.0 is left unspecified.)"""
    from .. import seams
    from ..traced import run_traced

    seams.setup()
    compared = 0
    bad: List[tuple] = []
    pairs = [(3, 3.0, True), (3.0, 3.0, False), (1000, 1000.0, True), (True, 1.0, True), (1, 1.0, True), (0, 0.0, True),
             ("3.0", 3.0, True), ([3.0], 3.0, True), (2 ** 53 + 1, float(2 ** 53), True), (2.5, 2.5, False), (None, 3.0, True)]
    for old, new, changed in pairs:
        nodes = [{"processor": "FloatValueDataSource", "parameters": {"value": new}},
                 {"processor": "FloatCollectValueProbe", "context_key": "a"},
                 {"processor": "FloatCollectValueProbe", "context_key": "a"}]       # the second probe rewrites the same value
        for detail in ("hash", "all"):
            obs = run_traced(nodes, None, {"a": old, "k": 7}, detail=detail)
            sers = [r for r in obs["records"] if r.get("record_type") == "ser"]
            if obs["raised"] is not None or len(sers) != 3:
                continue    # stream shape / failures are C06's business
            compared += 1
            for i, want in ((1, ["a"] if changed else []), (2, [])):
                cd = sers[i].get("context_delta", {})
                if sorted(cd.get("updated_keys", [])) != want or cd.get("created_keys", []) != []:
                    bad.append((f"updated:representation:{type(old).__name__}->{type(new).__name__}",
                                f"context a={old!r} overwritten with {new!r} by node {i + 1}: SER says created={cd.get('created_keys')} "
                                f"updated={cd.get('updated_keys')}, the actual difference is updated={want}"))
    if compared < len(pairs):
        raise core.MachineryError(f"vacuity: only {compared} of {2 * len(pairs)} representation runs produced three SERs")
    return bad


def _freeze(x):
    if isinstance(x, dict):
        return tuple(sorted((k, _freeze(v)) for k, v in x.items()))
    if isinstance(x, (list, tuple)):
        return tuple(_freeze(v) for v in x)
    return x


def replay_chunk(cases: List[Dict[str, Any]]):
    from ..traced import run_traced

    out = {"n": 0, "sers": 0, "viol": [], "param_placements": {}}
    digests: Dict[Any, str] = {}
    for case in cases:
        nodes = g_prog(case["prog"])
        h = zlib.crc32(repr(case["prog"]).encode() + repr(case["ictx"]).encode())
        detail, mode, tz = DETAILS[h % len(DETAILS)], MODES[(h // 7) % 2], TZS[(h // 13) % len(TZS)]
        os.environ["TZ"] = tz
        time.tzset()
        try:
            obs = run_traced(nodes, g_data(case["idata"]), g_ctx(case["ictx"]), detail=detail, mode=mode, prior_run=(h % 5 == 2))
        finally:
            os.environ["TZ"] = "UTC0"
            time.tzset()
        if obs["construct_error"]:
            continue
        out["n"] += 1
        exp = [r for r in case["out"] if r["t"] == "ser"]
        out["sers"] += len(exp)
        for e in exp:
            if e["resolved"] and isinstance(e["params"], dict):
                for p, pv in e["params"].items():
                    out["param_placements"][pv["src"]] = out["param_placements"].get(pv["src"], 0) + 1
        for key, msg in check_sers(case, obs, tz, digests):
            out["viol"].append((key, f"[{prog_key(case['prog'])}] (detail={detail}, TZ={tz}) {msg}",
                                {"case": case, "nodes": nodes, "detail": detail, "mode": mode, "tz": tz}))
    return out


def _replay(run: core.Run, cfg: str, **kw):
    res, path = tlc.emit_cases("MC_TraceStream", cfg, **kw)
    run.add_tlc(res, count_states=False)
    n = 0
    try:
        for r in pmap(replay_chunk, tlc.iter_emitted(path), chunk=300):
            n += r["n"]
            run.nontrivial += r["sers"]
            pp = run.extra.setdefault("param_placements_checked", {})
            for k, v in r["param_placements"].items():
                pp[k] = pp.get(k, 0) + v
            for key, what, rep in r["viol"]:
                run.violation(key, what, rep)
    finally:
        try:
            os.unlink(path)
        except OSError:
            pass
    if n == 0:
        raise core.MachineryError(f"no cases emitted by {cfg}")
    run.evaluations += n
    run.traces_validated += n


def replay_one(payload: Dict[str, Any]) -> int:
    from .. import seams

    seams.setup()
    r = replay_chunk([payload["case"]])
    for key, what, _ in r["viol"]:
        print(f"VIOLATION property=C07 replay=<given>\n  {key}\n  {what}")
    print("replay:", "violations" if r["viol"] else "no violation")
    return 1 if r["viol"] else 0


def check(tier: str) -> int:
    run = core.Run("C07", tier)
    run.rule = ("cases = closed behaviours of TraceStream.tla replayed as real traced runs under host TZ in "
                f"{TZS}; every real SER is compared with the spec's SER content; non-trivial counts SERs compared")
    run.assumptions = ["true instant: harness-measured time.time() bracket around the call, tolerance 1.5 ms (trusted measurement)",
                       "host time zone is changed in-process with TZ + time.tzset() using POSIX TZ strings (no tzdata needed)",
                       "processor.ref is compared with module.qualname of the class of the node that actually ran at that index"]
    tlc_checks(run, tier)
    seed = core.seed()
    _replay(run, "TraceStream.full1.emit")
    _replay(run, "TraceStream.slice3.emit")       # several generated classes of one factory in one pipeline
    if tier == "quick":
        _replay(run, "TraceStream.full2.emit")
        _replay(run, "TraceStream.sim.emit", simulate="num=600", depth=24, seed=seed + 7)
    else:
        _replay(run, "TraceStream.full2.emit")
        _replay(run, "TraceStream.trace4.emit", timeout=3000)
        _replay(run, "TraceStream.sim.emit", simulate="num=15000", depth=24, seed=seed + 7, timeout=3000)
    for key, msg in representation_updates():
        run.violation(key, msg, {"representation": True})
    pp = run.extra.get("param_placements_checked", {})
    if not all(pp.get(k, 0) > 0 for k in ("node", "context", "default")):
        raise core.MachineryError(f"vacuity: parameter placements exercised: {pp}")
    run.exhaustive = True
    return run.finish()
