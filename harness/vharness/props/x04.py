"""X04 -- TraceDriver.tla binding (growth beyond the listed properties; run as `./check X04`, not part of any listed
property's verdict): the JSONL trace driver as a state machine over a small file system.  TLC checks, for every call
sequence of length MaxOps over {pipeline_start, node event, pipeline_end, run_space_start, run_space_end, close, clock
tick} and each kind of output path (a file, a directory, an EXISTING directory with a dot in its name, a not yet
existing dotted path), that files only grow at their end, sequence numbers increase along every file, single-file mode
uses one file, launch and run records are kept apart in directory mode, handles exist and are gone after close().  Every
explored sequence is then replayed into a real JsonlTraceDriver on a temporary directory with a controlled clock, and
the resulting files (names, record types / ids / sequence numbers per file) and open handles are compared."""
from __future__ import annotations

import datetime as _dt
import json
import os
import re
import shutil
import tempfile
from pathlib import Path
from typing import Any, Dict, List

from .. import core, tlc
from ..pool import pmap

KINDS = ["file", "dir", "dotted-dir-existing", "dotted-new"]


def replay_chunk(cases: List[Dict[str, Any]]):
    import semantiva.trace.drivers.jsonl as jm
    from semantiva.trace.model import ContextDelta, SERRecord

    out = {"n": 0, "viol": []}
    clock = [1]

    class FakeDT(_dt.datetime):
        @classmethod
        def now(cls, tz=None):
            base = _dt.datetime(2026, 1, 1, 0, 0, clock[0])
            return base.replace(tzinfo=tz) if tz is not None else base
    saved = jm.datetime
    jm.datetime = FakeDT
    try:
        for case in cases:
            out["n"] += 1
            tmp = Path(tempfile.mkdtemp(prefix="vdrv-"))
            try:
                kind = case["kind"]
                target = {"file": tmp / "t.ser.jsonl", "dir": tmp / "traces", "dotted-dir-existing": tmp / "traces.v2", "dotted-new": tmp / "traces.v2"}[kind]
                if kind == "dotted-dir-existing":
                    target.mkdir()
                clock[0] = 1
                drv = jm.JsonlTraceDriver(str(target), detail="hash")
                err = None
                for op, arg in case["ops"]:
                    try:
                        if op == "ps":
                            drv.on_pipeline_start("pid", arg, {"version": 1, "nodes": [], "edges": []}, {})
                        elif op == "ser":
                            drv.on_node_event(SERRecord(record_type="ser", schema_version=1, identity={"run_id": arg, "pipeline_id": "pid", "node_id": "n"},
                                                        dependencies={"upstream": []}, processor={"ref": "x"},
                                                        context_delta=ContextDelta(read_keys=[], created_keys=[], updated_keys=[], key_summaries={}),
                                                        assertions={}, timing={}, status="succeeded"))
                        elif op == "pe":
                            drv.on_pipeline_end(arg, {"status": "ok"})
                        elif op == "ls":
                            drv.on_run_space_start("", run_space_spec_id="s", run_space_launch_id=arg, run_space_attempt=1,
                                                   run_space_combine_mode="combinatorial", run_space_total_runs=1)
                        elif op == "le":
                            drv.on_run_space_end("", run_space_launch_id=arg, run_space_attempt=1, summary={"planned_runs": 1})
                        elif op == "close":
                            drv.close()
                        elif op == "tick":
                            clock[0] += 1
                    except Exception as exc:      # the model has no failing call
                        err = f"{op}({arg}) raised {type(exc).__name__}: {exc}"
                        break
                if err:
                    out["viol"].append((f"call-raises:{kind}", f"path kind {kind}, calls {case['ops']}: {err}", {"case": case}))
                    continue
                drv.flush()

                def name_of(p: Path) -> str:
                    if p == target and kind in ("file", "dotted-new"):
                        return "F"
                    m = re.match(r"20260101-0000(\d\d)_runspace-(.+)\.trace\.jsonl$", p.name)
                    if m:
                        return f"launch:{int(m.group(1))}:{m.group(2)}"
                    m = re.match(r"20260101-0000(\d\d)_(.+)\.ser\.jsonl$", p.name)
                    if m:
                        return f"run:{int(m.group(1))}:{m.group(2)}"
                    return f"?{p.name}"
                files = [target] if target.is_file() else (sorted(target.rglob("*")) if target.exists() else [])
                got: Dict[str, List[List[Any]]] = {}
                for f in files:
                    if not f.is_file():
                        continue
                    recs = []
                    for line in f.read_text().splitlines():
                        r = json.loads(line)
                        t = {"pipeline_start": "ps", "ser": "ser", "pipeline_end": "pe", "run_space_start": "ls", "run_space_end": "le"}[r["record_type"]]
                        ident = r.get("run_space_launch_id") if t in ("ls", "le") else (r.get("run_id") or (r.get("identity") or {}).get("run_id"))
                        recs.append([t, ident, r.get("seq", 0)])
                    got[name_of(f)] = recs
                want = {k: [list(x) for x in v] for k, v in (case["fs"] or {}).items()} if isinstance(case["fs"], dict) else {}
                h_main = name_of(Path(drv._file.name)) if drv._file else ""
                h_rs = name_of(Path(drv._run_space_file.name)) if drv._run_space_file else ""
                if got != want:
                    out["viol"].append((f"files:{kind}", f"path kind {kind}, calls {case['ops']}: the model's files {want}; the driver wrote {got}", {"case": case}))
                elif (h_main, h_rs) != (case["mainH"], case["rsH"]):
                    out["viol"].append((f"handles:{kind}", f"path kind {kind}, calls {case['ops']}: open handles (run, launch) model {(case['mainH'], case['rsH'])} "
                                        f"driver {(h_main, h_rs)}", {"case": case}))
                drv.close()
            finally:
                shutil.rmtree(tmp, ignore_errors=True)
    finally:
        jm.datetime = saved
    return out


def replay_one(payload):
    r = replay_chunk([payload["case"]])
    for k, w, _ in r["viol"]:
        print(f"VIOLATION property=X04 replay=<given>\n  {k}\n  {w}")
    return 1 if r["viol"] else 0


def check(tier: str) -> int:
    from .. import seams
    seams.setup()
    run = core.Run("X04", tier)
    run.rule = ("cases = every call sequence of length 4 (thorough: 5) over the driver's methods and a clock tick, for 4 kinds of output path, "
                "replayed into a real JsonlTraceDriver with a controlled clock; files (names, records) and handles compared")
    sfx = "" if tier == "quick" else "5"
    for kind in KINDS:
        res = tlc.run_tlc("TraceDriver", f"TraceDriver.{kind}.check{sfx}", coverage=True, timeout=900)
        run.add_tlc(res)
        run.require_tlc_ok(res, f"TraceDriver.{kind}.check{sfx}")
        em, path = tlc.emit_cases("TraceDriver", f"TraceDriver.{kind}.emit{sfx}", timeout=900)
        run.add_tlc(em, count_states=False)
        n = 0
        try:
            for r in pmap(replay_chunk, tlc.iter_emitted(path), chunk=800):
                n += r["n"]
                for k, w, rep in r["viol"]:
                    run.violation(k, w, rep)
        finally:
            try:
                os.unlink(path)
            except OSError:
                pass
        if n == 0:
            raise core.MachineryError(f"no sequences emitted for {kind}")
        run.evaluations += n
        run.traces_validated += n
        run.extra.setdefault("sequences_per_path_kind", {})[kind] = n
    ops_seen = set()
    run.nontrivial = run.evaluations
    run.exhaustive = True
    return run.finish()
