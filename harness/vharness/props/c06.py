"""C06 -- every run leaves a well-formed, schema-valid trace, whatever node fails.

TLC: TraceStream.tla (lifecycle start -> build -> node* -> end -> close as actions over
Pipeline.tla) with invariants Bracket / SerOrder / OneEnd / OkIffReturned / ClosedOnExit,
liveness <>closed and the refinement PROPERTY Untraced.  Each closed behaviour is emitted
with its record sequence and replayed as a real traced run (detail level x output mode);
hypothesis-style random programs are validated the other way (TraceStreamTrace.tla)."""
from __future__ import annotations

import os
import zlib
from typing import Any, Dict, List

from .. import core, tlc
from ..gamma import g_ctx, g_data, g_prog, prog_key
from ..pool import pmap

DETAILS = ["hash", "repr", "context", "all", "hash,repr", "repr,context"]
MODES = ["file", "dir", "dir.dotted"]
# value skins: the record sequence of a run does not depend on WHICH numbers flow through it, so one case in eight is
# replayed with every number of its configuration and initial context replaced by an unusual-but-valid float
SKINS = [float("inf"), float("-inf"), float("nan"), 5e-324, -0.0]      # (not 1.8e308: squaring it raises OverflowError -- the outcome would depend on the value)


def skin(obj, special):
    if isinstance(obj, bool):
        return obj
    if isinstance(obj, float):
        return special
    if isinstance(obj, list):
        return [skin(x, special) for x in obj]
    if isinstance(obj, dict):
        return {k: (v if k in ("processor", "context_key", "collection", "mode") else skin(v, special)) for k, v in obj.items()}
    return obj


def exp_shape(case) -> List[Dict[str, Any]]:
    out = []
    for r in case["out"]:
        if r["t"] == "ser":
            out.append({"t": "ser", "node": r["node"], "status": r["status"]})
        elif r["t"] == "end":
            out.append({"t": "end", "status": r["status"]})
        else:
            out.append({"t": "start"})
    return out


def check_stream(case, obs, untraced) -> List[tuple]:
    """All C06 clauses on one traced run. Returns [(clause, message)]."""
    from ..traced import schema_errors, shape

    bad: List[tuple] = []
    recs = obs["records"]
    if "read_error" in obs:
        return [("unreadable", f"trace file cannot be parsed after the call returned: {obs['read_error']}")]
    start = next((r for r in recs if r.get("record_type") == "pipeline_start"), None)
    uuids = [n["node_uuid"] for n in (start or {}).get("pipeline_spec_canonical", {}).get("nodes", [])] if start else []
    got, want = shape(recs, uuids), exp_shape(case)
    if got != want:
        bad.append(("shape", f"record sequence differs: expected {want} got {got}"))
    for r in recs:
        errs = schema_errors(r)
        if errs:
            bad.append(("schema", f"{r.get('record_type')} record violates its registry schema: {errs}"))
            break
    if start:
        run_id, pid = start.get("run_id"), start.get("pipeline_id")
        edges = start.get("pipeline_spec_canonical", {}).get("edges", [])
        ups: Dict[str, List[str]] = {u: [] for u in uuids}
        for e in edges:
            ups.setdefault(e["target"], []).append(e["source"])
        for r in recs:
            t = r.get("record_type")
            if t == "ser":
                ident = r.get("identity", {})
                if ident.get("run_id") != run_id or ident.get("pipeline_id") != pid:
                    bad.append(("ids", f"SER ids {ident} differ from pipeline_start ({run_id}, {pid})"))
                if r.get("dependencies", {}).get("upstream") != ups.get(ident.get("node_id"), None):
                    bad.append(("upstream", f"SER upstream {r.get('dependencies')} != canonical edges {ups.get(ident.get('node_id'))}"))
            elif t == "pipeline_end" and r.get("run_id") != run_id:
                bad.append(("ids", f"pipeline_end run_id {r.get('run_id')} != {run_id}"))
        if len(set(uuids)) != len(uuids):
            bad.append(("ids", "duplicate node uuids in canonical spec"))
    returned = obs["raised"] is None
    ends = [r for r in recs if r.get("record_type") == "pipeline_end"]
    if ends and ((ends[-1].get("summary", {}).get("status") == "ok") != returned):
        bad.append(("ok-iff-returned", f"pipeline_end says {ends[-1].get('summary')} but the call {'returned' if returned else 'raised'}"))
    if (obs["raised"] is None) != (untraced["raised"] is None) or \
            (obs["raised"] is not None and (type(obs["exc"]) is not type(untraced["exc"]) or repr(obs["exc"].args) != repr(untraced["exc"].args))):
        bad.append(("exception", f"traced run raised {obs['raised']!r}, untraced run raised {untraced['raised']!r}"))
    if not obs["handles_closed"] or (obs["handles"] and "close" not in obs["driver_calls"]):
        bad.append(("closed", f"trace file handle left open when the call returned (driver calls: {obs['driver_calls']})"))
    if obs["handles"] and "flush" not in obs["driver_calls"]:
        bad.append(("flushed", "driver.flush() was not called before the call returned"))
    return bad


def replay_chunk(cases: List[Dict[str, Any]]):
    from ..seams import run_nodes
    from ..traced import run_traced

    out = {"n": 0, "fail_cases": 0, "viol": [], "by_class": {}}
    from ..seams import make_recording_orchestrator
    shared_orch = make_recording_orchestrator()      # ONE orchestrator object serving many pipelines, whatever their runs did
    for case in cases:
        nodes = g_prog(case["prog"])
        h = zlib.crc32(repr(case["prog"]).encode() + repr(case["ictx"]).encode())
        detail, mode = DETAILS[h % len(DETAILS)], MODES[(h // 7) % 3]
        data, ctx = g_data(case["idata"]), g_ctx(case["ictx"])
        skinned = h % 8 == 3
        if skinned:
            special = SKINS[(h // 8) % len(SKINS)]
            nodes, ctx = skin(nodes, special), skin(ctx, special)
        obs = run_traced(nodes, data, ctx, detail=detail, mode=mode)
        if obs["construct_error"]:
            continue
        untraced = run_nodes(nodes, g_data(case["idata"]), skin(g_ctx(case["ictx"]), special) if skinned else g_ctx(case["ictx"]))
        out["skinned"] = out.get("skinned", 0) + skinned
        out["n"] += 1
        fc = case["failClass"] or "ok"
        out["by_class"][fc] = out["by_class"].get(fc, 0) + 1
        if case["status"] == "fail":
            out["fail_cases"] += 1
        for clause, msg in check_stream(case, obs, untraced):
            where = f"{fc}@{case['failAt']}/{len(case['prog'])}" if case["status"] == "fail" else "ok"
            key = f"{clause}:{fc}" if clause in ("shape", "closed", "flushed", "ok-iff-returned") else f"{clause}:{fc}:{prog_key(case['prog'])}"
            if skinned:
                key += ":unusual-numbers"
            out["viol"].append((key, f"[{prog_key(case['prog'])}] ({where}, detail={detail}, mode={mode}{', numbers replaced by ' + repr(special) if skinned else ''}) {msg}",
                                {"case": case, "nodes": nodes, "detail": detail, "mode": mode}))
        # the same run through an orchestrator object that has served the earlier cases of this chunk -- runs that failed
        # while their nodes were being constructed, runs aborted by a BaseException, ... -- must leave the same stream
        if h % 3 == 1:
            obs3 = run_traced(nodes, g_data(case["idata"]), skin(g_ctx(case["ictx"]), special) if skinned else g_ctx(case["ictx"]), detail=detail, mode=mode, orchestrator=shared_orch)
            if not obs3["construct_error"]:
                for clause, msg in check_stream(case, obs3, untraced):
                    out["viol"].append((f"shared-orchestrator:{clause}:{fc}", f"[{prog_key(case['prog'])}] through an orchestrator that served {out['n'] - 1} other runs before "
                                        f"(detail={detail}, mode={mode}): {msg}", {"case": case, "nodes": nodes, "detail": detail, "mode": mode}))
        # the same call again on the SAME Pipeline object (a retry): its stream must satisfy every clause as well,
        # with ids of its own -- whatever the first run left behind
        if (case["status"] == "fail" and h % 4 == 0) or h % 16 == 0:
            second = second_run_on_same_pipeline(nodes, case, detail)
            if second is not None:
                obs2, first_run_id = second
                bad2 = check_stream(case, obs2, untraced)
                st2 = next((r for r in obs2["records"] if r.get("record_type") == "pipeline_start"), None)
                if st2 is not None and st2.get("run_id") == first_run_id:
                    bad2.append(("ids", f"second run re-uses the first run's run_id {first_run_id}"))
                for clause, msg in bad2:
                    out["viol"].append((f"retry:{clause}:{fc}", f"[{prog_key(case['prog'])}] second run on the same Pipeline object (detail={detail}): {msg}",
                                        {"case": case, "nodes": nodes, "detail": detail, "mode": "dir", "retry": True}))
    return out


def second_run_on_same_pipeline(nodes, case, detail):
    """Run the case twice through ONE Pipeline object (directory trace output: one file per run) and return the
    observation of the second run (records of the files it created) plus the first run's id."""
    import copy
    import shutil
    import tempfile
    from pathlib import Path

    from semantiva.pipeline import Pipeline

    from ..seams import make_recording_orchestrator, run_nodes
    from ..traced import make_driver, read_records

    orch = make_recording_orchestrator()      # the Pipeline keeps ONE orchestrator across its runs
    tmp = Path(tempfile.mkdtemp(prefix="vretry-"))
    import zlib as _z
    single_file = _z.crc32(repr(case["prog"]).encode()) % 2 == 1      # both runs appended to ONE file by ONE driver
    try:
        drv = make_driver(str(tmp / "d" / "all.ser.jsonl") if single_file else str(tmp / "d"), detail)
        try:
            p = Pipeline(copy.deepcopy(nodes), trace=drv)
        except Exception:
            return None
        run_nodes(nodes, g_data(case["idata"]), g_ctx(case["ictx"]), pipeline=p, orchestrator=orch)
        files_a = set((tmp / "d").rglob("*.jsonl")) if (tmp / "d").exists() else set()
        first = [r for f in sorted(files_a) for r in read_records(f)]
        first_id = next((r.get("run_id") for r in first if r.get("record_type") == "pipeline_start"), None)
        calls_before = len(drv.calls)
        obs = run_nodes(nodes, g_data(case["idata"]), g_ctx(case["ictx"]), pipeline=p, orchestrator=orch)
        files_b = (set((tmp / "d").rglob("*.jsonl")) if (tmp / "d").exists() else set()) - files_a
        obs["records"] = [r for f in sorted(files_b) for r in read_records(f)]
        if single_file:
            allrecs = [r for f in sorted(set((tmp / "d").rglob("*.jsonl"))) for r in read_records(f)]
            obs["records"] = allrecs[len(first):]          # what the second run appended
        obs["driver_calls"] = list(drv.calls[calls_before:])
        obs["handles"] = len(drv.handles)
        obs["handles_closed"] = all(hd.closed for hd in drv.handles)
        return obs, first_id
    finally:
        shutil.rmtree(tmp, ignore_errors=True)


def non_json_sweep_checks(run: core.Run) -> None:
    """Sweeps over values that are not JSON types (what YAML yields for an unquoted date / timestamp / !!binary; tuples,
    Decimals, sets from the Python API): the run is valid, so its trace is the bracket of three schema-valid records."""
    import datetime as _dt
    import decimal as _dec
    from .. import seams
    from ..traced import run_traced, schema_errors

    seams.setup()
    for vals in ([_dt.date(2026, 1, 1), _dt.date(2026, 1, 2)], [_dt.datetime(2026, 1, 1, 12, 0)], [b"\x00\xff", b"a"], [(1, 2), (3, 4)],
                 [_dec.Decimal("1.5")], [frozenset({1})]):
        nodes = [{"processor": "FloatValueDataSource", "derive": {"parameter_sweep": {"parameters": {"value": "2.0 if d else 3.0"}, "variables": {"d": {"values": vals}},
                                                                                       "collection": "FloatDataCollection"}}}]
        for detail in ("hash", "all"):
            run.evaluations += 1
            obs = run_traced(nodes, None, {}, detail=detail)
            if obs["construct_error"]:
                raise core.MachineryError(f"non-JSON sweep probe could not be built: {obs['construct_error']}")
            kinds = [r.get("record_type") for r in obs["records"]]
            tname = type(vals[0]).__name__
            if obs["raised"] is not None or kinds != ["pipeline_start", "ser", "pipeline_end"]:
                run.violation(f"shape:non-json-sweep-values:{tname}", f"sweep over {vals!r} (detail={detail}): raised {obs['raised']}, records {kinds}", {"nodes": str(nodes)})
                continue
            for r in obs["records"]:
                errs = schema_errors(r)
                if errs:
                    run.violation(f"schema:non-json-sweep-values:{r.get('record_type')}", f"sweep over {vals!r} (detail={detail}): the {r.get('record_type')} record "
                                  f"violates its registry schema: {errs}", {"nodes": str(nodes)})
                    break


def _replay(run: core.Run, cfg: str, **kw):
    res, path = tlc.emit_cases("MC_TraceStream", cfg, **kw)
    run.add_tlc(res, count_states=False)
    n = 0
    try:
        for r in pmap(replay_chunk, tlc.iter_emitted(path), chunk=300):
            n += r["n"]
            run.nontrivial += r["fail_cases"]
            run.extra["cases_with_unusual_numbers"] = run.extra.get("cases_with_unusual_numbers", 0) + r.get("skinned", 0)
            bc = run.extra.setdefault("cases_by_failure_class", {})
            for k, v in r["by_class"].items():
                bc[k] = bc.get(k, 0) + v
            for key, what, rep in r["viol"]:
                run.violation(key, what, rep)
    finally:
        try:
            os.unlink(path)
        except OSError:
            pass
    if n == 0:
        raise core.MachineryError(f"no cases emitted by {cfg}")
    run.evaluations += n
    run.traces_validated += n
    return n


def replay_one(payload: Dict[str, Any]) -> int:
    from .. import seams

    seams.setup()
    r = replay_chunk([payload["case"]])
    for key, what, _ in r["viol"]:
        print(f"VIOLATION property=C06 replay=<given>\n  {key}\n  {what}")
    print("replay:", "violations" if r["viol"] else "no violation")
    return 1 if r["viol"] else 0


TCHECK_ACTIONS = ["TStart", "TBuild", "TStep", "TEnd", "TClose"]


def tlc_checks(run: core.Run, tier: str) -> None:
    cfgs = ["TraceStream.full2.check", "TraceStream.trace3.check"]
    if tier == "thorough":
        cfgs.append("TraceStream.trace4.check")
    for cfg in cfgs:
        res = tlc.run_tlc("MC_TraceStream", cfg, coverage=True, timeout=3000)
        run.add_tlc(res)
        run.require_tlc_ok(res, cfg)
    run.require_actions(TCHECK_ACTIONS)


def check(tier: str) -> int:
    run = core.Run("C06", tier)
    run.rule = ("cases = closed behaviours of TraceStream.tla (program x payload, every failure kind incl. construction "
                "failure and BaseException abort at every index) replayed as real traced runs, detail level and "
                "file/directory mode chosen by case hash; non-trivial = the run fails (a failure path is exercised)")
    run.assumptions = ["JSON schemas are taken from semantiva/trace/schema via the registry file (offline referencing registry)",
                       "file closed = every handle the driver opened reports .closed after the call"]
    tlc_checks(run, tier)
    seed = core.seed()
    _replay(run, "TraceStream.full1.emit")
    if tier == "quick":
        _replay(run, "TraceStream.trace3.emit")
        _replay(run, "TraceStream.sim.emit", simulate="num=800", depth=24, seed=seed + 5)
    else:
        _replay(run, "TraceStream.full2.emit")
        _replay(run, "TraceStream.trace4.emit", timeout=3000)
        _replay(run, "TraceStream.sim.emit", simulate="num=20000", depth=24, seed=seed + 5, timeout=3000)
    need = {"build", "type", "resolve", "proc", "undeclared", "abort", "ok"}
    got = set(run.extra.get("cases_by_failure_class", {}))
    if not need <= got:
        raise core.MachineryError(f"vacuity: failure classes never exercised: {sorted(need - got)}")
    non_json_sweep_checks(run)
    from . import c06_trace
    c06_trace.validate(run, tier)
    run.exhaustive = True
    return run.finish()
