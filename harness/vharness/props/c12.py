"""C12 -- equal expression signatures imply equal values; commuted forms agree.

TLC: ExprSig.tla defines the normal form (flatten + / * chains, sort, rebuild) and checks, for
every expression tree up to MaxSize nodes, NormPreservesValue (on an integer grid),
NormIdempotent, ACKeepsNorm (every single commute / re-association step keeps the normal form)
and MutationSound.  Every tree is emitted with its AC variants and single-point mutations,
each flagged "same normal form?".  The code is checked without any pairwise search: the
signature string is an `ast` constructor expression, so the normalised tree is rebuilt FROM THE
SIGNATURE and must evaluate like the original expression on the grid in exact integer
arithmetic -- equal signatures then imply equal values by construction.  Variant / mutation
edges must keep / change the code's signature exactly as the spec's normal form says."""
from __future__ import annotations

import ast
import os
import random
from fractions import Fraction
from typing import Any, Dict, List

from .. import core, tlc
from ..pool import pmap

GRID = [(x, y) for x in (-2, -1, 0, 1, 2, 3) for y in (-2, -1, 0, 1, 2, 3)]
FUNCS = {"abs": abs, "min": min, "max": max}


def unparse(t) -> str:
    h = t[0]
    if h == "v":
        return "x" if t[1] == 1 else "y"
    if h == "c":
        return str(t[1])
    if h == "neg":
        return f"(-{unparse(t[1])})"
    if h == "abs":
        return f"abs({unparse(t[1])})"
    if h in ("min", "max"):
        return f"{h}({unparse(t[1])}, {unparse(t[2])})"
    if h == "if":
        return f"({unparse(t[2])} if {unparse(t[1])} else {unparse(t[3])})"
    if h == "chain":
        return f"({unparse(t[3])} {t[1]} {unparse(t[4])} {t[2]} {unparse(t[5])})"
    return f"({unparse(t[1])} {h} {unparse(t[2])})"


def sig(expr: str) -> str:
    from semantiva.metadata.semantic_id import normalize_expression_sig_v1

    return normalize_expression_sig_v1(expr)["ast"]


_AST_NS = {k: getattr(ast, k) for k in dir(ast) if not k.startswith("_")}


def values(code) -> List[Any]:
    out = []
    for x, y in GRID:
        try:
            v = eval(code, {"__builtins__": {}, **FUNCS}, {"x": x, "y": y})
            out.append(Fraction(v) if not isinstance(v, bool) else Fraction(int(v)))
        except ZeroDivisionError:
            out.append("undef")
        except (OverflowError, ValueError, TypeError) as exc:
            out.append(type(exc).__name__)
    return out


def rebuilt_values(signature: str) -> List[Any]:
    node = eval(signature, dict(_AST_NS))
    tree = ast.fix_missing_locations(ast.Expression(body=node))
    return values(compile(tree, "<sig>", "eval"))


def check_expr(expr: str) -> str | None:
    s = sig(expr)
    try:
        rv = rebuilt_values(s)
    except Exception as exc:
        return f"signature of {expr!r} cannot be rebuilt into an expression: {type(exc).__name__}: {exc}"
    ov = values(compile(expr, "<expr>", "eval"))
    if rv != ov:
        i = next(i for i, (a, b) in enumerate(zip(rv, ov)) if a != b)
        return (f"expression {expr!r} evaluates to {ov[i]} at (x, y) = {GRID[i]} but the expression denoted by its "
                f"signature evaluates to {rv[i]}: two expressions with this signature have different values")
    return None


def kind_of(t, m) -> str:
    return f"{t[0]}->{m[0]}" if t[0] != m[0] or len(t) < 3 else f"{t[0]}:child"


def replay_chunk(cases: List[Dict[str, Any]]):
    out = {"n": 0, "edges": 0, "viol": []}
    for c in cases:
        t = c["t"]
        e = unparse(t)
        out["n"] += 1
        bad = check_expr(e)
        if bad:
            out["viol"].append((f"value:{t[0]}", bad, {"expr": e}))
        s0 = sig(e)
        for v in c["variants"]:
            out["edges"] += 1
            ev = unparse(v["t"])
            if sig(ev) != s0:
                out["viol"].append((f"ac-changes-signature:{t[0]}", f"{e!r} and its commuted / re-associated form {ev!r} have different signatures", {"expr": e, "other": ev}))
        for m in c["mutations"]:
            out["edges"] += 1
            em = unparse(m["t"])
            same = sig(em) == s0
            if same != m["same"]:
                if same:
                    out["viol"].append((f"mutation-keeps-signature:{kind_of(t, m['t'])}",
                                        f"{e!r} and the mutated {em!r} get the same signature although they are not equal modulo +/* reordering"
                                        + ("" if m["samevalue"] else " (and their values differ)"), {"expr": e, "other": em}))
                else:
                    out["viol"].append((f"ac-changes-signature:{kind_of(t, m['t'])}",
                                        f"{e!r} and {em!r} are equal modulo +/* reordering but get different signatures", {"expr": e, "other": em}))
    return out


# ---------------------------------------------------------------- beyond the TLC bound (sampled)
OPS = ["+", "-", "*", "//", "%", "**", "<", "<=", "==", "!=", ">", ">="]


def rand_expr(rng: random.Random, depth: int) -> str:
    if depth == 0 or rng.random() < 0.2:
        return rng.choice(["x", "y", "0", "1", "2", "3"])
    r = rng.random()
    if r < 0.1:
        return f"(-{rand_expr(rng, depth - 1)})"
    if r < 0.2:
        return f"abs({rand_expr(rng, depth - 1)})"
    if r < 0.3:
        return f"{rng.choice(['min', 'max'])}({rand_expr(rng, depth - 1)}, {rand_expr(rng, depth - 1)})"
    if r < 0.38:
        return f"({rand_expr(rng, depth - 1)} if {rand_expr(rng, depth - 1)} else {rand_expr(rng, depth - 1)})"
    if r < 0.45:      # chained comparison, operators mixed
        return (f"({rand_expr(rng, depth - 1)} {rng.choice(OPS[6:])} {rand_expr(rng, depth - 1)} "
                f"{rng.choice(OPS[6:])} {rand_expr(rng, depth - 1)})")
    op = rng.choice(OPS) if rng.random() < 0.5 else rng.choice(["+", "*"])
    if op == "**":
        return f"({rand_expr(rng, depth - 1)} ** {rng.choice(['0', '1', '2'])})"
    return f"({rand_expr(rng, depth - 1)} {op} {rand_expr(rng, depth - 1)})"


def ac_shuffle(node: ast.AST, rng: random.Random) -> ast.AST:
    """Randomly permute / re-associate the operands of every + and * chain."""
    for f, v in ast.iter_fields(node):
        if isinstance(v, ast.AST):
            setattr(node, f, ac_shuffle(v, rng))
        elif isinstance(v, list):
            setattr(node, f, [ac_shuffle(i, rng) if isinstance(i, ast.AST) else i for i in v])
    if isinstance(node, ast.BinOp) and isinstance(node.op, (ast.Add, ast.Mult)):
        terms: List[ast.AST] = []

        def collect(n):
            if isinstance(n, ast.BinOp) and type(n.op) is type(node.op):
                collect(n.left)
                collect(n.right)
            else:
                terms.append(n)
        collect(node)
        rng.shuffle(terms)

        def build(ts):
            if len(ts) == 1:
                return ts[0]
            k = rng.randint(1, len(ts) - 1)
            return ast.BinOp(left=build(ts[:k]), op=type(node.op)(), right=build(ts[k:]))
        return build(terms)
    return node


def payload_sig(expr: str):
    """The signature where users see it: `parameters_sig` of a sweep node in the inspection payload."""
    from semantiva.inspection import build_inspection_payload

    cfg = {"extensions": ["semantiva-examples", "verif_ext"], "pipeline": {"nodes": [
        {"processor": "VPairSource", "derive": {"parameter_sweep": {
            "parameters": {"b": "(y - x)", "a": expr},       # two parameters, NOT in alphabetical order
            "variables": {"x": {"values": [1.0, 2.0]}, "y": {"values": [3.0]}},
            "collection": "FloatDataCollection"}}}]}}
    try:
        payload = build_inspection_payload(cfg)
    except Exception:
        return None       # not a buildable sweep (e.g. rejected by the expression policy): nothing to compare
    found = []

    def walk(o):
        if isinstance(o, dict):
            if isinstance(o.get("parameters_sig"), dict) and "a" in o["parameters_sig"]:
                found.append(o["parameters_sig"]["a"])
                from semantiva.metadata.semantic_id import normalize_expression_sig_v1 as _sig
                if o["parameters_sig"].get("b") != _sig("(y - x)"):
                    found.append({"wrong-parameter": "b", "got": o["parameters_sig"].get("b")})
            for v in o.values():
                walk(v)
        elif isinstance(o, list):
            for v in o:
                walk(v)
    walk(payload)
    return found


def sampled_chunk(seeds: List[int]):
    out = {"n": 0, "viol": []}
    for sd in seeds:
        rng = random.Random(sd)
        e = rand_expr(rng, rng.randint(2, 5))
        out["n"] += 1
        if sd % 4 == 0:
            from semantiva.metadata.semantic_id import normalize_expression_sig_v1
            for ps in payload_sig(e) or []:
                if ps != normalize_expression_sig_v1(e):
                    out["viol"].append(("payload-signature-differs", f"the inspection payload of a sweep over {e!r} carries a signature that is not "
                                        f"the ExpressionSigV1 of that expression: {str(ps)[:160]}", {"expr": e}))
                    break
        bad = check_expr(e)
        if bad:
            out["viol"].append(("value:sampled", bad, {"expr": e}))
        sh = ast.unparse(ac_shuffle(ast.parse(e, mode="eval").body, rng))
        if sig(sh) != sig(e):
            out["viol"].append(("ac-changes-signature:sampled", f"{e!r} and its reordered form {sh!r} have different signatures", {"expr": e, "other": sh}))
    return out


def replay_one(payload):
    bad = check_expr(payload["expr"])
    if "other" in payload:
        print("signatures equal:", sig(payload["expr"]) == sig(payload["other"]))
    print("replay:", bad or "value check passes")
    return 1 if bad else 0


def check(tier: str) -> int:
    run = core.Run("C12", tier)
    run.rule = ("cases = every expression tree up to MaxSize nodes over {x, y, 0..2, + - * // % <, neg, abs, min, max, if-else} "
                "emitted by TLC with its AC variants and single-point mutations; the code's signature is rebuilt into an "
                "expression and evaluated on a 6x6 integer grid; non-trivial = variant / mutation edges compared; beyond the "
                "bound: seeded random expressions (depth <= 5, incl. ** and all comparisons) with random AC shuffles")
    run.assumptions = ["exact arithmetic = Python integers / Fraction on a 6x6 grid (wider than the degree of the bounded trees)",
                       "the spec's sorting order need not be Python's ast.dump order: only equality of normal forms is compared"]
    cfgs = ["ExprSig.s4.check"] + (["ExprSig.s5.check"] if tier == "thorough" else [])
    for cfg in cfgs:
        res = tlc.run_tlc("MC_ExprSig", cfg, timeout=3000)
        run.add_tlc(res)
        run.require_tlc_ok(res, cfg)
    emit = "ExprSig.s4.emit" if tier == "quick" else "ExprSig.s5.emit"
    res, path = tlc.emit_cases("MC_ExprSig", emit, timeout=3000)
    run.add_tlc(res, count_states=False)
    n = 0
    try:
        for r in pmap(replay_chunk, tlc.iter_emitted(path), chunk=200):
            n += r["n"]
            run.nontrivial += r["edges"]
            for key, what, rep in r["viol"]:
                run.violation(key, what, rep)
    finally:
        os.unlink(path)
    if n == 0:
        raise core.MachineryError("no trees emitted")
    run.evaluations += n
    run.traces_validated += n
    ns = 6000 if tier == "quick" else 200000
    base = core.seed() * 1000 + 12
    m = 0
    for r in pmap(sampled_chunk, range(base, base + ns), chunk=500):
        m += r["n"]
        for key, what, rep in r["viol"]:
            run.violation(key, what, rep)
    run.evaluations += m
    # HISTORY: the signature of an expression does not depend on what was normalised before in the process -- in particular
    # not on an unusually deep expression (a generated ladder of 120 nested conditionals, a 150-level parenthesised chain)
    pairs = [("x + y", "y + x"), ("(x * y) + 2", "2 + (y * x)"), ("abs(x + y) * 3", "3 * abs(y + x)"), ("(x + 1) * (y + 2)", "(2 + y) * (1 + x)")]
    before = [(sig(a), sig(b)) for a, b in pairs]
    ladder = "0"
    for i in range(120):
        ladder = f"({i} if x == {i} else {ladder})"
    deep = "x"
    for i in range(150):
        deep = f"(({deep}) * 1 + y)" if i % 2 else f"(-({deep}))"
    for d in (ladder, deep):
        try:
            sig(d)
        except Exception:      # a too-deep expression may be refused; what matters is what happens AFTERWARDS
            pass
    after = [(sig(a), sig(b)) for a, b in pairs]
    run.evaluations += len(pairs)
    for (a, b), bf, af in zip(pairs, before, after):
        if af != bf or af[0] != af[1]:
            run.violation("history:after-deep-expression", f"after a deeply nested expression was normalised in the process, {a!r} / {b!r} get signatures "
                          f"{'that differ from each other' if af[0] != af[1] else 'other than before'}", {"expr": a, "other": b})
        bad = check_expr(a)
        if bad:
            run.violation("history:after-deep-expression:value", bad, {"expr": a})
    # ENVIRONMENT: with little interpreter stack left (a lowered recursion limit, a deep caller) a long chain may be refused
    # with RecursionError -- but a signature that IS issued must still be the same for commuted forms
    import sys as _sys
    terms = [f"x * {i}" if i % 3 else f"(y + {i})" for i in range(400)]
    fwd, rev = " + ".join(terms), " + ".join(reversed(terms))
    for limit in (None, 350, 200):
        old_limit = _sys.getrecursionlimit()
        try:
            if limit:
                _sys.setrecursionlimit(limit)
            try:
                sa, sb = sig(fwd), sig(rev)
            except RecursionError:
                sa = sb = None
        finally:
            _sys.setrecursionlimit(old_limit)
        run.evaluations += 1
        if sa != sb:
            run.violation("environment:little-stack", f"with the recursion limit at {limit or old_limit} a 400-term sum and its reversal get different signatures", {"expr": fwd, "other": rev})
    run.extra["trees_exhaustive"] = n
    run.extra["sampled_beyond_bound"] = m
    run.sample({"tree": "((x + y) * (y + x))", "signature": sig("((x + y) * (y + x))")})
    run.exhaustive = True
    return run.finish()
