"""X02 -- ContextColl.tla binding (growth beyond the listed properties; run as `./check X02`, not part of any
listed property's verdict).

Spec -> code, two ways:
  * transitions: every reachable (state, call) pair of the model -- the reachable states of ContextColl.tla ARE its
    transitions, each carrying pre-state, call, result and post-state -- becomes one implementation test: the real
    ContextCollectionType is constructed in the pre-state, the call is made (directly and through
    _ContextObserver.update_context / delete_context), and the returned value or exception class and the resulting
    to_dict() are compared with the model;
  * walks: TLC -simulate behaviours of 7 calls are stepped through ONE real object (history dependence, aliasing
    between returned copies/views and the collection)."""
from __future__ import annotations

import itertools
import os
from typing import Any, Dict, List, Tuple

from .. import core, tlc
from ..pool import pmap

KEYS = ("a", "b")


def _val(v: int):
    """model cell -> Python value: 0 is None, 2 is the FALSY non-None value 0 (truthiness tests must not
    confuse it with None or with absence), anything else is itself"""
    return None if v == 0 else 0 if v == 2 else v


def _cell(x) -> int:
    return 0 if x is None else 2 if x == 0 else x


def mk_dict(d: Dict[str, int]) -> Dict[str, Any]:
    return {k: _val(v) for k, v in d.items() if v != -1}


def a_dict(py: Dict[str, Any]) -> Dict[str, int]:
    out = {}
    for k in KEYS:
        if k not in py:
            out[k] = -1
        else:
            out[k] = _cell(py[k])
    extra = set(py) - set(KEYS)
    if extra:
        out["__extra__"] = sorted(extra)  # type: ignore[assignment]
    return out


def build(g, ls):
    from semantiva.context_processors.context_types import ContextCollectionType, ContextType

    return ContextCollectionType(global_context=mk_dict(g), context_list=[ContextType(mk_dict(l)) for l in ls])


def state(obj) -> Tuple[Dict[str, int], List[Dict[str, int]]]:
    td = obj.to_dict()
    return a_dict(td["global"]), [a_dict(l) for l in td["locals"]]


def _get_res(r) -> Dict[str, Any]:
    if isinstance(r, list):
        return {"kind": "list", "v": 0, "items": [_cell(x) for x in r]}
    return {"kind": "scalar", "v": _cell(r), "items": []}


def apply(obj, op: Dict[str, Any], flavour: str) -> Dict[str, Any]:
    """Make the call on the real object; returns the observed result in the model's vocabulary
    (only the fields that matter for the result kind)."""
    from semantiva.context_processors.context_observer import _ContextObserver
    from semantiva.context_processors.context_types import ContextType

    name, i, k, v = op["name"], int(op["i"]) - 1, op["k"], _val(int(op["v"]))
    via = flavour == "observer"
    try:
        if name == "set_value":
            _ContextObserver.update_context(obj, k, v) if via else obj.set_value(k, v)
            return {"kind": "void"}
        if name == "get_value":
            return _get_res(obj.get_value(k))
        if name == "delete_value":
            _ContextObserver.delete_context(obj, k) if via else obj.delete_value(k)
            return {"kind": "void"}
        if name == "set_item_value":
            _ContextObserver.update_context(obj, k, v, index=i) if via else obj.set_item_value(i, k, v)
            return {"kind": "void"}
        if name == "delete_item_value":
            _ContextObserver.delete_context(obj, k, index=i) if via else obj.delete_item_value(i, k)
            return {"kind": "void"}
        if name == "get_item":
            item = obj[i] if via else obj.get_item(i)
            d = a_dict(item.to_dict())
            item.set_value("a", 77)      # a merged COPY: writing to it must not reach the collection
            item.set_value("zz", 78)
            return {"kind": "dict", "d": d}
        if name == "get_slice_context":
            return {"kind": "dict", "d": a_dict(dict(obj.get_slice_context(i)))}
        if name == "slice_write":
            _ContextObserver.update_context(obj.get_slice_context(i), k, v)
            return {"kind": "void"}
        if name == "slice_delete":
            _ContextObserver.delete_context(obj.get_slice_context(i), k)
            return {"kind": "void"}
        if name == "keys":
            ks = obj.keys()
            if len(ks) != len(set(ks)):
                return {"kind": "keys", "ks": sorted(ks), "dup": True}
            return {"kind": "keys", "ks": sorted(ks)}
        if name == "items":
            its = obj.items()
            vals = obj.values()
            m = {kk: {"kind": "absent", "v": 0, "items": []} for kk in KEYS}
            for kk, r in its:
                m[kk] = _get_res(r)
            if [r for _k, r in its] != vals:
                return {"kind": "items", "m": m, "values_disagree": True}
            return {"kind": "items", "m": m}
        if name == "clear":
            obj.clear()
            return {"kind": "void"}
        if name == "append":
            obj.append(ContextType(mk_dict(op["d"])))
            return {"kind": "void"}
        if name == "append_bad":
            obj.append(mk_dict({"a": 1, "b": -1}))   # a plain dict is not a ContextType
            return {"kind": "void"}
    except (ValueError, KeyError, IndexError, TypeError) as exc:
        return {"kind": type(exc).__name__}
    raise core.MachineryError(f"unknown model operation {name}")


def same_result(spec: Dict[str, Any], real: Dict[str, Any]) -> bool:
    if spec["kind"] != real.get("kind"):
        return False
    kind = spec["kind"]
    if kind == "scalar":
        return real["v"] == spec["v"]
    if kind == "list":
        return list(real["items"]) == list(spec["items"])
    if kind == "dict":
        return real["d"] == spec["d"]
    if kind == "keys":
        return sorted(spec["ks"]) == real["ks"] and not real.get("dup")
    if kind == "items":
        want = {k: {"kind": r["kind"], "v": r["v"], "items": list(r["items"])} for k, r in spec["m"].items()}
        return want == real["m"] and not real.get("values_disagree")
    return True


def _short(op):
    return f"{op['name']}({', '.join(str(x) for x in (op['i'], op['k'], op['v']) if x not in ('', 0))})"


def replay_transitions(cases: List[Dict[str, Any]]):
    out = {"n": 0, "ops": {}, "errors": 0, "viol": []}
    for t in cases:
        op = t["op"]
        out["n"] += 1
        out["ops"][op["name"]] = out["ops"].get(op["name"], 0) + 1
        if t["res"]["kind"].endswith("Error"):
            out["errors"] += 1
        flavours = ["direct", "observer"] if op["name"] in ("set_value", "delete_value", "set_item_value",
                                                            "delete_item_value", "get_item") else ["direct"]
        for fl in flavours:
            try:
                obj = build(t["pre_g"], t["pre_ls"])
                real = apply(obj, op, fl)
                post = state(obj)
                n = len(obj)
            except core.MachineryError:
                raise
            except Exception as exc:
                out["viol"].append((f"ctxcoll:{op['name']}:unexpected-exception",
                                    f"{_short(op)} on global={t['pre_g']} locals={t['pre_ls']} raised {type(exc).__name__}: {exc}",
                                    {"transition": t}))
                continue
            want_post = (t["post_g"], list(t["post_ls"]))
            if not same_result(t["res"], real):
                out["viol"].append((f"ctxcoll:{op['name']}:result:{t['res']['kind']}",
                                    f"{_short(op)} [{fl}] on global={t['pre_g']} locals={t['pre_ls']}: model result {_brief(t['res'])}, code {real}",
                                    {"transition": t}))
            elif post != want_post or n != len(want_post[1]):
                out["viol"].append((f"ctxcoll:{op['name']}:state",
                                    f"{_short(op)} [{fl}] on global={t['pre_g']} locals={t['pre_ls']}: model post-state {want_post}, code {post}",
                                    {"transition": t}))
    return out


def _brief(res):
    k = res["kind"]
    return {"kind": k, **({"v": res["v"]} if k == "scalar" else {"items": res["items"]} if k == "list" else
                          {"d": res["d"]} if k == "dict" else {"ks": res["ks"]} if k == "keys" else
                          {"m": res["m"]} if k == "items" else {})}


def replay_walks(logs: List[List[Dict[str, Any]]]):
    out = {"n": 0, "steps": 0, "viol": []}
    for log in logs:
        out["n"] += 1
        obj = build(log[0]["post_g"], log[0]["post_ls"])
        for j, ev in enumerate(log[1:], 1):
            op = ev["op"]
            fl = "observer" if (j + out["n"]) % 2 else "direct"
            try:
                real = apply(obj, op, fl)
                post = state(obj)
            except core.MachineryError:
                raise
            except Exception as exc:
                out["viol"].append((f"ctxcoll-walk:{op['name']}:unexpected-exception",
                                    f"step {j} {_short(op)} raised {type(exc).__name__}: {exc}; walk {[_short(e['op']) for e in log[1:j + 1]]}",
                                    {"walk": log}))
                break
            out["steps"] += 1
            if not same_result(ev["res"], real) or post != (ev["post_g"], list(ev["post_ls"])):
                out["viol"].append((f"ctxcoll-walk:{op['name']}",
                                    f"walk {[_short(e['op']) for e in log[1:j + 1]]} from {log[0]['post_g']}/{log[0]['post_ls']}: "
                                    f"model result {_brief(ev['res'])} state {(ev['post_g'], ev['post_ls'])}; code result {real} state {post}",
                                    {"walk": log}))
                break
    return out


def check(tier: str) -> int:
    run = core.Run("X02", tier)
    run.rule = ("every reachable (state, call) transition of ContextColl.tla replayed into a freshly constructed real "
                "ContextCollectionType (result / exception class and to_dict() compared), plus simulated walks of 7 calls on one object")
    cfgs = ["ContextColl.vals2"] if tier == "quick" else ["ContextColl.vals2", "ContextColl.loc3"]
    ops: Dict[str, int] = {}
    total = errors = 0
    for cfg in cfgs:
        res = tlc.run_tlc("MC_ContextColl", cfg + ".check", timeout=3000)
        run.add_tlc(res)
        run.require_tlc_ok(res, cfg + ".check")
        res, path = tlc.emit_cases("MC_ContextColl", cfg + ".emit", timeout=3000)
        run.add_tlc(res, count_states=False)
        try:
            for r in pmap(replay_transitions, tlc.iter_emitted(path), chunk=4000):
                total += r["n"]
                errors += r["errors"]
                for k, v in r["ops"].items():
                    ops[k] = ops.get(k, 0) + v
                for k, w, rep in r["viol"]:
                    run.violation(k, w, rep)
        finally:
            os.unlink(path)
    want_ops = {"set_value", "get_value", "delete_value", "set_item_value", "delete_item_value", "get_item",
                "get_slice_context", "slice_write", "slice_delete", "keys", "items", "clear", "append", "append_bad"}
    if total == 0 or set(ops) != want_ops or errors == 0:
        raise core.MachineryError(f"vacuity: transitions={total} ops={sorted(ops)} error-outcomes={errors}")
    # walks
    nwalk, cap = (4000, 30000) if tier == "quick" else (20000, 150000)
    res, path = tlc.emit_cases("MC_ContextColl", "ContextColl.walk", simulate=f"num={nwalk}", depth=9,
                               seed=core.seed() + 11, timeout=3000)
    run.add_tlc(res, count_states=False)
    walks = steps = 0
    try:
        for r in pmap(replay_walks, itertools.islice(tlc.iter_emitted(path), cap), chunk=1000):
            walks += r["n"]
            steps += r["steps"]
            for k, w, rep in r["viol"]:
                run.violation(k, w, rep)
    finally:
        os.unlink(path)
    if walks == 0:
        raise core.MachineryError("ContextColl.walk produced no behaviours")
    run.evaluations = total + walks
    run.traces_validated = walks
    run.nontrivial = errors
    run.exhaustive = True
    run.extra["context_collection_model"] = {"transitions_replayed": total, "by_operation": ops,
                                             "transitions_with_error_outcome": errors,
                                             "walks": walks, "walk_steps": steps}
    run.constants = {"Keys": list(KEYS), "configs": cfgs, "walk_depth": 7}
    return run.finish()


def replay_one(payload):
    if "transition" in payload:
        r = replay_transitions([payload["transition"]])
    else:
        r = replay_walks([payload["walk"]])
    for _k, w, _rep in r["viol"]:
        print("replay:", w[:800])
    if r["viol"]:
        print("VIOLATION property=X02 replay=<given>")
        return 1
    print("replay: ok")
    return 0
