"""C01 -- pipeline execution matches the dual-channel node semantics.

TLC: Pipeline.tla (MC_Pipeline instances) checked exhaustively; every terminal behaviour is
emitted (program, initial payload, per-step states, outcome) and replayed into the real
Pipeline (S->I).  Hypothesis programs beyond the TLC bounds are executed, recorded through
the RecordingOrchestrator seam and batch-validated against PipelineTrace.tla (I->S)."""
from __future__ import annotations

import copy

import json
import os
import random
from typing import Any, Dict, List

from .. import core, tlc
from ..gamma import g_ctx, g_data, g_data_plain, g_prog, prog_key
from ..pool import pmap

CHECK_ACTIONS = ["Build", "Step"]


def compare_case(case: Dict[str, Any], obs: Dict[str, Any]) -> str | None:
    """Return None if the real run agrees with the spec-predicted behaviour (in the
    property's observable terms), else a description of the disagreement."""
    exp_steps = [(g_data_plain(s["data"]), g_ctx(s["ctx"])) for s in case["steps"]]
    if case["status"] == "done":
        if obs["raised"] is not None:
            return f"spec: completes; code raised {obs['raised']} at node {obs['started']}"
        exp_final = (g_data_plain(case["data"]), g_ctx(case["ctx"]))
        if _norm(obs["final"]) != _norm(exp_final):
            return f"final payload differs: spec {exp_final} code {obs['final']}"
    else:
        if obs["raised"] is None:
            return f"spec: raises at node {case['failAt']} ({case['failClass']}); code returned {obs['final']}"
        exp_started = case["failAt"]
        if obs["started"] != exp_started:
            return (f"spec: raises at node {exp_started} ({case['failClass']}); code raised at node "
                    f"{obs['started']}: {obs['raised']}")
    got = [_norm(x) for x in obs["oks"]]
    want = [_norm(x) for x in exp_steps]
    if got != want:
        for i, (g, w) in enumerate(zip(got, want)):
            if g != w:
                return f"state after node {i + 1} differs: spec {w} code {g}"
        return f"completed-node count differs: spec {len(want)} code {len(got)}"
    return None


def _norm(x):
    d, c = x
    return (tuple(d) if not isinstance(d, tuple) else d, c)


def replay_chunk(cases: List[Dict[str, Any]]):
    from ..seams import run_nodes

    out = {"n": 0, "rejected": 0, "viol": [], "drift": [], "nontrivial": 0, "via_yaml": 0}
    import tempfile
    import zlib
    from ..gamma import render_yaml
    for case in cases:
        nodes = g_prog(case["prog"])
        if zlib.crc32(repr(case["prog"]).encode()) % 4 == 0:
            # the loader path: render to YAML text, load it back with load_pipeline_from_yaml
            from semantiva.configurations import load_pipeline_from_yaml
            with tempfile.NamedTemporaryFile("w", suffix=".yaml", delete=True) as fh:
                fh.write(render_yaml(nodes, flow=bool(len(nodes) % 2)))
                fh.flush()
                try:
                    nodes = load_pipeline_from_yaml(fh.name).nodes
                    out["via_yaml"] += 1
                except Exception as exc:
                    out["rejected"] += 1
                    out["drift"].append(f"YAML loader rejected {prog_key(case['prog'])}: {type(exc).__name__}: {exc}"[:200])
                    continue
        obs = run_nodes(nodes, g_data(case["idata"]), g_ctx(case["ictx"]))
        out["n"] += 1
        if obs["construct_error"]:
            out["rejected"] += 1
            out["drift"].append(f"loader rejected {prog_key(case['prog'])}: {obs['construct_error'][:120]}")
            continue
        if len(case["steps"]) >= 1:
            out["nontrivial"] += 1
        bad = compare_case(case, obs)
        if bad:
            key = f"{prog_key(case['prog'])} ;; ctx={sorted(g_ctx(case['ictx']))} data={case['idata']['ty']}"
            out["viol"].append((key, bad, {"case": case, "nodes": nodes}))
        elif case["status"] == "fail" and obs["exc_class"] != case["failClass"]:
            out["drift"].append(f"{prog_key(case['prog'])}: failure class spec={case['failClass']} code={obs['exc_class']}")
        # HISTORY: the same payload again through ONE Pipeline object that has already served it once -- in particular
        # after a run that raised: the second call must behave exactly like the first (same result, or the same node raising)
        hh = zlib.crc32(repr(case["prog"]).encode() + repr(case["ictx"]).encode())
        if not bad and ((case["status"] == "fail" and hh % 5 == 0) or hh % 29 == 0):
            import copy as _copy
            from semantiva.pipeline import Pipeline
            from ..seams import make_recording_orchestrator
            try:
                pobj = Pipeline(_copy.deepcopy(nodes))
            except Exception:
                continue
            orch = make_recording_orchestrator()
            run_nodes(nodes, g_data(case["idata"]), g_ctx(case["ictx"]), pipeline=pobj, orchestrator=orch)
            again = run_nodes(nodes, g_data(case["idata"]), g_ctx(case["ictx"]), pipeline=pobj, orchestrator=orch)
            out["reused"] = out.get("reused", 0) + 1
            bad2 = compare_case(case, again)
            if bad2:
                key = f"second-call-on-one-pipeline:{'after-failure' if case['status'] == 'fail' else 'after-success'}"
                out["viol"].append((key, f"[{prog_key(case['prog'])}] the same Pipeline object, called a second time with the same payload: {bad2}",
                                    {"case": case, "nodes": nodes}))
    return out


def _replay_emitted(run: core.Run, module: str, cfg: str, *, exhaustive: bool, simulate=None,
                    depth=None, seed=None, timeout=1200):
    res, path = tlc.emit_cases(module, cfg, simulate=simulate, depth=depth, seed=seed, timeout=timeout)
    run.add_tlc(res, count_states=False)
    n = 0
    seen_rej = 0
    try:
        for r in pmap(replay_chunk, tlc.iter_emitted(path)):
            n += r["n"]
            seen_rej += r["rejected"]
            run.extra["replayed_via_yaml_loader"] = run.extra.get("replayed_via_yaml_loader", 0) + r.get("via_yaml", 0)
            run.nontrivial += r["nontrivial"]
            run.extra["second_calls_on_one_pipeline"] = run.extra.get("second_calls_on_one_pipeline", 0) + r.get("reused", 0)
            for key, what, rep in r["viol"]:
                run.violation(key, what, rep)
            for d in r["drift"]:
                if len(run.drift) < 200:
                    run.drift.append(d)
    finally:
        try:
            os.unlink(path)
        except OSError:
            pass
    if n == 0:
        raise core.MachineryError(f"no cases emitted by {cfg}")
    run.evaluations += n
    run.traces_validated += n
    run.extra.setdefault("replayed_per_cfg", {})[cfg + (":sim" if simulate else "")] = n
    run.extra["loader_rejected"] = run.extra.get("loader_rejected", 0) + seen_rej
    return n


def replay_one(payload: Dict[str, Any]) -> int:
    from .. import seams

    seams.setup()
    r = replay_chunk([payload["case"]])
    for key, what, _ in r["viol"]:
        print(f"VIOLATION property=C01 replay=<given>\n  {key}\n  {what}")
        return 1
    print("replay: case agrees with the specification")
    return 0


def bystander_checks(run: core.Run) -> None:
    """Context values that no node reads must not matter: a handful of fixed pipelines (results computed by hand from
    the node semantics) is run with contexts that also hold awkward values -- numpy arrays, NaN, a generator, an
    object whose == raises, mappings with mixed keys, a lone surrogate -- and must return exactly the same."""
    from .. import seams
    seams.setup()
    import numpy
    import verif_ext
    from semantiva.context_processors import ContextType
    from semantiva.examples.test_utils import FloatDataType
    from semantiva.pipeline import Payload, Pipeline

    def awkward():
        return {"z_arr": numpy.arange(4.0), "z_arrs": [numpy.array([1, 2])], "z_nan": float("nan"), "z_gen": (i for i in range(2)),
                "z_eq": verif_ext.VBadEq(), "z_mixed": {1: "a", "b": 2}, "z_sur": "scan_\udcff.dat", "z_none": None, "z_empty": ""}
    cases = [
        ([{"processor": "FloatDataSink"}], {}, 3.0, {}),
        ([{"processor": "FloatCollectValueProbe", "context_key": "a"}, {"processor": "FloatMultiplyOperation"}], {"factor": 2.0}, 6.0, {"a": 3.0, "factor": 2.0}),
        ([{"processor": "FloatMultiplyOperationWithDefault"}, {"processor": "rename:factor:kept"}], {"factor": 4.0}, 12.0, {"kept": 4.0}),
        ([{"processor": 'template:"x={factor}":label'}, {"processor": "delete:factor"}, {"processor": "FloatSquareOperation"}], {"factor": 4.0}, 9.0, {"label": "x=4.0"}),
    ]
    for nodes, ctx, want_data, want_ctx in cases:
        c = dict(ctx, **awkward())
        run.evaluations += 1
        try:
            res = Pipeline(copy.deepcopy(nodes)).process(Payload(FloatDataType(3.0), ContextType(c)))
            got_ctx = {k: v for k, v in res.context.to_dict().items() if not k.startswith("z_")}
            left = sorted(k for k in res.context.to_dict() if k.startswith("z_"))
            if res.data.data != want_data or got_ctx != want_ctx or left != sorted(awkward()):
                run.violation("bystander-values:result", f"{nodes} with unread awkward context values: data {res.data.data} context {got_ctx} "
                              f"(bystanders left: {left}); expected data {want_data} context {want_ctx}", {"nodes": nodes})
        except Exception as exc:
            run.violation("bystander-values:raises", f"{nodes} raises {type(exc).__name__}: {str(exc)[:160]} when the context also holds values that "
                          f"no node reads (numpy arrays, NaN, a generator, an object whose == raises, mixed-key mappings, a lone surrogate)", {"nodes": nodes})


def environment_probe(run: core.Run) -> None:
    """C01 quantifies over configurations and payloads, not over the process environment.  Fixed pipelines with hand-computed
    outcomes (parameter precedence, a template whose text a shell would expand, an unknown parameter that must be rejected, a
    missing parameter, a type gate) are run once while every environment lookup is recorded; each SEMANTIVA_* name that was
    asked for (observed, not guessed) is then set to a few plausible values and the outcomes must not change."""
    from .. import envprobe, seams
    seams.setup()
    from ..seams import run_nodes

    cases = [
        ([{"processor": "FloatValueDataSource", "parameters": {"value": 3.0}}, {"processor": "FloatMultiplyOperationWithDefault"}], {"factor": 4.0}, ("ok", 12.0)),
        ([{"processor": "FloatValueDataSource", "parameters": {"value": 3.0}}, {"processor": "FloatMultiplyOperation", "parameters": {"factor": 2.0, "facto": 5.0}}], {}, ("construct",)),
        ([{"processor": "FloatValueDataSource", "parameters": {"value": 3.0}}, {"processor": "FloatMultiplyOperation"}], {}, ("raises", 1)),
        ([{"processor": "FloatValueDataSource", "parameters": {"value": 3.0}}, {"processor": "FloatCollectionSumOperation"}], {}, ("raises", 1)),
        ([{"processor": "FloatValueDataSource", "parameters": {"value": 3.0}}, {"processor": 'template:"~/$HOME/$USER/r_{tag}.txt":path'}], {"tag": "$HOME"}, ("ctx", "path", "~/$HOME/$USER/r_$HOME.txt")),
        ([{"processor": "FloatValueDataSource", "derive": {"parameter_sweep": {"parameters": {"value": "2 * t"}, "variables": {"t": {"values": [1.0, 2.0, 3.0]}},
                                                                                "collection": "FloatDataCollection"}}},
          {"processor": "slice:FloatMultiplyOperationWithDefault:FloatDataCollection"}, {"processor": "FloatCollectionSumOperation"}], {}, ("ok", 24.0)),
    ]

    def observe(i):
        nodes, ctx, want = cases[i]
        o = run_nodes(copy.deepcopy(nodes), None, dict(ctx))
        if want[0] == "construct":
            return None if (o["construct_error"] or (o["raised"] and o.get("started", 0) == 0)) else f"an unknown parameter was accepted: {o.get('final')}"
        if o["construct_error"]:
            return f"rejected: {o['construct_error']}"
        if want[0] == "raises":
            return None if o["raised"] and o["started"] == want[1] + 1 else f"expected node {want[1] + 1} to raise; got {o['raised'] or o['final']} (started {o['started']})"
        if o["raised"]:
            return f"raised {o['raised']}"
        if want[0] == "ok":
            return None if o["final"][0][1] == want[1] else f"data {o['final'][0]} (expected {want[1]})"
        return None if o["final"][1].get(want[1]) == want[2] else f"context[{want[1]}] = {o['final'][1].get(want[1])!r} (expected {want[2]!r})"
    for i in range(len(cases)):
        base = observe(i)
        if base:
            run.violation(f"fixed-pipeline:{i}", f"{cases[i][0]} in the default environment: {base}", {"nodes": cases[i][0]})
            return
    names = envprobe.discover(lambda: [observe(i) for i in range(len(cases))])
    run.extra["environment_variables_consulted"] = names
    for assign in envprobe.settings(names):
        with envprobe.with_env(assign):
            for i in range(len(cases)):
                run.evaluations += 1
                bad = observe(i)
                if bad:
                    run.violation(f"environment:{next(iter(assign))}:{cases[i][2][0]}", f"with {assign} in the process environment, {cases[i][0]}: {bad}",
                                  {"env": assign, "nodes": cases[i][0]})
    # HOME / USER pointing somewhere else must not matter either (no lookup of them is legitimate on this path)
    with envprobe.with_env({"HOME": "/nonexistent/elsewhere", "USER": "someone-else"}):
        for i in range(len(cases)):
            run.evaluations += 1
            bad = observe(i)
            if bad:
                run.violation(f"environment:HOME:{cases[i][2][0]}", f"with HOME / USER changed, {cases[i][0]}: {bad}", {"nodes": cases[i][0]})


def magnitude_checks(run: core.Run) -> None:
    """The model's values are small integers; the node semantics do not depend on magnitude.  The same hand-computed
    pipelines are run with values across the float range (exponent notation on both sides, subnormal, -0.0, integers
    beyond 2**53, bool, text): data and parameters must arrive bit-identical and a template must render a value the
    way Python's str.format renders it."""
    from .. import seams
    seams.setup()
    from semantiva.context_processors import ContextType
    from semantiva.examples.test_utils import FloatDataType
    from semantiva.pipeline import Payload, Pipeline

    values = [1e16, 1e-05, 1e-06, 1.5e300, 5e-324, -0.0, 123456789.125, 0.30000000000000004, 9007199254740993, -7, True, "007", "1e3", 1e22, 2.5e-10]
    for v in values:
        run.evaluations += 1
        nodes = [{"processor": 'template:"x={factor}|{other}":label'}, {"processor": "rename:factor:kept"},
                 {"processor": "FloatCollectValueProbe", "context_key": "seen"}]
        try:
            res = Pipeline(copy.deepcopy(nodes)).process(Payload(FloatDataType(v if isinstance(v, float) else 3.0), ContextType({"factor": v, "other": [v]})))
            c = res.context.to_dict()
            want_label = "x={factor}|{other}".format(factor=v, other=[v])
            same = lambda a, b: type(a) is type(b) and repr(a) == repr(b)
            if c.get("label") != want_label or not same(c.get("kept"), v) or not same(c.get("seen"), v if isinstance(v, float) else 3.0):
                run.violation("value-magnitude:context", f"{nodes} with factor = {v!r}: label {c.get('label')!r} (str.format gives {want_label!r}), "
                              f"kept {c.get('kept')!r}, probed {c.get('seen')!r}", {"nodes": nodes, "value": repr(v)})
        except Exception as exc:
            run.violation("value-magnitude:raises", f"{nodes} with factor = {v!r} raises {type(exc).__name__}: {str(exc)[:160]}", {"nodes": nodes, "value": repr(v)})
        if isinstance(v, float):
            run.evaluations += 1
            nodes = [{"processor": "FloatMultiplyOperation"}, {"processor": "FloatAddOperation", "parameters": {"addend": v}}]
            try:
                res = Pipeline(copy.deepcopy(nodes)).process(Payload(FloatDataType(3.0), ContextType({"factor": v})))
                if repr(res.data.data) != repr(3.0 * v + v):
                    run.violation("value-magnitude:data", f"{nodes} with factor = addend = {v!r} on 3.0 gives {res.data.data!r}, arithmetic gives {3.0 * v + v!r}",
                                  {"nodes": nodes, "value": repr(v)})
            except Exception as exc:
                run.violation("value-magnitude:raises", f"{nodes} with factor = {v!r} raises {type(exc).__name__}: {str(exc)[:160]}", {"nodes": nodes, "value": repr(v)})


def check(tier: str) -> int:
    run = core.Run("C01", tier)
    run.rule = ("cases = terminal behaviours of Pipeline.tla (program x initial context x initial data) emitted by TLC "
                "and replayed step-by-step into semantiva.Pipeline; non-trivial = at least one node completed")
    run.assumptions = [
        "abstract/concrete component pairing of Library.tla / vharness.gamma (self-checked by replay of length-1 programs)",
        "floats: every abstract integer n is float(n), exact below 2^31",
        "failure class recognised from exception type/message is used for drift only",
    ]
    checks = ["Pipeline.full2.check"] + [f"Pipeline.{f}{4 if tier == 'quick' else 5}.check" for f in ("Feed", "Slice", "Ctx", "Fail", "Key")]
    if tier == "thorough":
        checks.append("Pipeline.full3.check")
    for cfg in checks:
        res = tlc.run_tlc("MC_Pipeline", cfg, coverage=True, timeout=3000)
        run.add_tlc(res)
        run.require_tlc_ok(res, cfg)
    run.require_actions(CHECK_ACTIONS)
    run.constants = {"MaxMag": 40000, "full": "39 node instances, len<=2 (thorough: len<=3, 6 contexts)",
                     "focus": "4 sets of 8-10 instances, len<=4 (thorough 5)"}
    seed = core.seed()
    _replay_emitted(run, "MC_Pipeline", "Pipeline.full1.emit", exhaustive=True)
    if tier == "quick":
        _replay_emitted(run, "MC_Pipeline", "Pipeline.full2s.emit", exhaustive=True)
        for f in ("Feed", "Slice", "Ctx", "Fail", "Key"):
            _replay_emitted(run, "MC_Pipeline", f"Pipeline.{f}3.emit", exhaustive=True)
        _replay_emitted(run, "MC_Pipeline", "Pipeline.sim.emit", exhaustive=False,
                        simulate="num=1500", depth=20, seed=seed + 1)
    else:
        _replay_emitted(run, "MC_Pipeline", "Pipeline.full2.emit", exhaustive=True, timeout=3000)
        for f in ("Feed", "Slice", "Ctx", "Fail", "Key"):
            _replay_emitted(run, "MC_Pipeline", f"Pipeline.{f}4.emit", exhaustive=True, timeout=3000)
        _replay_emitted(run, "MC_Pipeline", "Pipeline.sim.emit", exhaustive=False,
                        simulate="num=40000", depth=20, seed=seed + 1, timeout=3000)
    run.exhaustive = True
    from . import c01_trace
    c01_trace.validate(run, tier)
    bystander_checks(run)
    environment_probe(run)
    magnitude_checks(run)
    return run.finish()
