"""impl -> spec half of C06: JSONL streams written by the runtime for random programs beyond
the TLC bounds are abstracted to record shapes and batch-validated against TraceStreamTrace.tla."""
from __future__ import annotations

import json
import random
import re
import uuid
import zlib
from typing import Any, Dict, List

from .. import core, tlc
from ..gamma import g_ctx, g_data, g_prog, prog_key
from ..pool import pmap
from .c01_trace import Unabstractable, alpha_ctx, alpha_data, gen_program


def record_chunk(cases: List[Dict[str, Any]]):
    from ..traced import run_traced, schema_errors, shape
    from .c06 import DETAILS, MODES

    out = []
    for case in cases:
        h = zlib.crc32(repr(case["prog"]).encode())
        obs = run_traced(g_prog(case["prog"]), g_data(case["idata"]), g_ctx(case["ictx"]),
                         detail=DETAILS[h % len(DETAILS)], mode=MODES[(h // 7) % 2])
        if obs["construct_error"] or "read_error" in obs:
            out.append(("skip", case))
            continue
        try:  # TLC recomputes the payload: keep only runs whose values stay inside its integer range
            for d, c in obs["oks"]:
                alpha_data(d), alpha_ctx(c)
        except Unabstractable:
            out.append(("skip", case))
            continue
        recs = obs["records"]
        start = next((r for r in recs if r.get("record_type") == "pipeline_start"), None)
        uuids = [n["node_uuid"] for n in (start or {}).get("pipeline_spec_canonical", {}).get("nodes", [])]
        ups = {u: [] for u in uuids}
        for e in (start or {}).get("pipeline_spec_canonical", {}).get("edges", []):
            ups.setdefault(e["target"], []).append(e["source"])
        ids_ok = upstream_ok = True
        for r in recs:
            if r.get("record_type") == "ser":
                ident = r.get("identity", {})
                ids_ok &= ident.get("run_id") == start.get("run_id") and ident.get("pipeline_id") == start.get("pipeline_id")
                upstream_ok &= r.get("dependencies", {}).get("upstream") == ups.get(ident.get("node_id"))
            elif r.get("record_type") == "pipeline_end":
                ids_ok &= r.get("run_id") == (start or {}).get("run_id")
        out.append(("trace", {
            "prog": case["prog"], "ictx": case["ictx"], "idata": case["idata"],
            "events": shape(recs, uuids),
            "returned": obs["raised"] is None,
            "closed": bool(obs["handles_closed"] and "close" in obs["driver_calls"]),
            "schema_ok": not any(schema_errors(r) for r in recs),
            "ids_ok": bool(ids_ok), "upstream_ok": bool(upstream_ok),
        }))
    return out


def run_batch(traces, cfg="TraceStreamTrace"):
    tlc.WORK.mkdir(parents=True, exist_ok=True)
    path = tlc.WORK / f"ttraces-{uuid.uuid4().hex[:8]}.json"
    path.write_text(json.dumps(traces))
    try:
        res = tlc.run_tlc("TraceStreamTrace", cfg, workers=1, env={"TRACE_FILE": str(path)}, timeout=1800)
    finally:
        path.unlink(missing_ok=True)
    if res.violated:
        return res, None
    rej = set()
    m2 = re.search(r'"REJECTED",\s*\{([^}]*)\}', res.stdout)
    if m2:
        rej = {int(x) for x in m2.group(1).split(",") if x.strip()}
    ma = re.search(r'"ACCEPTED",\s*(\d+),\s*(\d+)', res.stdout)
    if ma and int(ma.group(1)) + len(rej) != int(ma.group(2)):
        raise core.MachineryError(f"batch verdict inconsistent: accepted {ma.group(1)} + rejected {len(rej)} != {ma.group(2)}")
    if "ACCEPTED" not in res.stdout and "MATCHED" not in res.stdout:
        raise core.MachineryError("trace validation produced no verdict:\n" + res.stdout[-1500:])
    return res, rej


def diagnose(trace) -> str:
    res, _ = run_batch([trace], cfg="TraceStreamTraceDiag")
    m = re.search(r'<<"MATCHED", (-?\d+)>>', res.stdout)
    k = int(m.group(1)) if m else -1
    ev = trace["events"]
    flags = {f: trace[f] for f in ("returned", "closed", "schema_ok", "ids_ok", "upstream_ok")}
    return (f"spec explains the first {k} of {len(ev)} records {ev}; flags {flags}; "
            f"next record not a spec behaviour: {ev[k] if 0 <= k < len(ev) else '(stream ends / close flags)'}")


def validate(run: core.Run, tier: str) -> None:
    n = 800 if tier == "quick" else 12000
    rng = random.Random(core.seed() * 104729 + 5)
    cases = [gen_program(rng) for _ in range(n)]
    traces = []
    for chunk in pmap(record_chunk, cases, chunk=200):
        traces += [p for k, p in chunk if k == "trace"]
    if len(traces) < n // 2:
        raise core.MachineryError(f"too few recorded streams: {len(traces)}")
    rejected = []
    for i in range(0, len(traces), 3000):
        batch = traces[i:i + 3000]
        res, rej = run_batch(batch)
        run.add_tlc(res)
        if rej is None:
            run.violation("stream-invariant:" + str(res.violated),
                          f"{res.violated} violated on a recorded stream:\n{res.error_trace[:1200]}", {})
            continue
        rejected += [batch[j - 1] for j in sorted(rej)]
    for t in rejected[:8]:
        run.violation("stream:" + prog_key(t["prog"]), "recorded JSONL stream is not a behaviour of TraceStream.tla: " + diagnose(t),
                      {"trace": t})
    run.traces_validated += len(traces) - len(rejected)
    run.evaluations += len(traces)
    run.extra["impl_to_spec"] = {"recorded": len(traces), "rejected_by_spec": len(rejected)}
    if traces:
        run.sample({"recorded_stream": {k: traces[0][k] for k in ("events", "returned", "closed")}, "prog": prog_key(traces[0]["prog"])})
