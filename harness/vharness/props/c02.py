"""C02 -- static inspection is sound and its per-node facts are true.

TLC: Inspection.tla states an order-sensitive two-pass inspector and proves `Sound` and
`Exact` against Pipeline.tla's dynamics for all programs in the bounds.  Every emitted case
(program, initial context, initial data, dynamic facts) is replayed: the REAL inspection +
validation is compared with the REAL run (code vs code); the spec's inspector is used for
drift reporting and the spec's dynamic provenance (bound to the code by C01) as truth for
parameter origins."""
from __future__ import annotations

import copy
import os
from typing import Any, Dict, List, Optional, Tuple

from .. import core, tlc
from ..gamma import g_ctx, g_data, g_prog, prog_key
from ..pool import pmap

FLOW_CLASSES = {"build", "type", "resolve"}


def real_inspect(nodes: List[Dict[str, Any]]) -> Dict[str, Any]:
    from semantiva.exceptions import PipelineConfigurationError
    from semantiva.inspection import build_pipeline_inspection, validate_pipeline

    obj = copy.deepcopy(nodes)          # THE configuration object: inspected here, and run afterwards (as `semantiva run` does)
    insp = build_pipeline_inspection(obj)
    clean, err = True, ""
    try:
        validate_pipeline(insp)
    except PipelineConfigurationError as exc:
        clean, err = False, str(exc)[:300]
    facts = []
    for i, ni in enumerate(insp.nodes):
        cfg_keys = set((nodes[i].get("parameters") or {}).keys())
        origins: Dict[str, Tuple[str, int]] = {}
        for p, idx in ni.context_params.items():
            origins[p] = ("context", int(idx) if idx is not None else 0)
        for p in ni.default_params:
            origins.setdefault(p, ("default", 0))
        for p in cfg_keys:
            origins[p] = ("config", 0)
        facts.append({
            "created": set(ni.created_keys), "suppressed": set(ni.suppressed_keys), "origins": origins,
            "invalid": sorted(i_["name"] for i_ in ni.invalid_parameters),
            "unbuildable": ni.node_class == "Invalid",
        })
    return {"clean": clean, "err": err, "req": set(insp.required_context_keys), "facts": facts, "obj": obj}


def runtime_invalid(nodes) -> Optional[List[str]]:
    """Names rejected at run time (None if construction + build accept the configuration)."""
    from semantiva.exceptions import InvalidNodeParameterError
    from ..seams import run_nodes
    from semantiva.data_types import NoDataType

    obs = run_nodes(nodes, NoDataType(), {})
    exc = obs.get("exc")
    if isinstance(exc, InvalidNodeParameterError) and obs["started"] == 0:
        return sorted(exc.invalid.keys())
    return None


def _first_bad(nodes, data, ctx) -> Optional[Tuple[str, int, str]]:
    from ..seams import run_nodes

    obs = run_nodes(nodes, data, ctx)
    if obs["raised"] is not None and obs["exc_class"] in FLOW_CLASSES:
        return obs["exc_class"], obs["started"], obs["raised"]
    return None


def reduce_soundness(prog, idata, ictx) -> List[Dict[str, Any]]:
    """Greedy delta-debugging of a soundness witness: drop nodes while the real inspection still
    accepts, the required keys are still supplied and the run still fails on flow (a type failure
    at the first data-typed node would be the caller's payload, not flow, and is not kept)."""
    cur = list(prog)
    changed = True
    while changed and len(cur) > 1:
        changed = False
        for i in range(len(cur)):
            cand = cur[:i] + cur[i + 1:]
            nodes = g_prog(cand)
            try:
                ri = real_inspect(nodes)
            except Exception:
                continue
            if not ri["clean"] or not ri["req"] <= set(ictx):
                continue
            bad = _first_bad(nodes, g_data(idata), ictx)
            if not bad:
                continue
            if bad[0] == "type" and _is_first_typed(cand, bad[1] - 1):
                continue
            cur = cand
            changed = True
            break
    return cur


def _is_first_typed(prog, idx) -> bool:
    return all(n["kind"] in ("Rename", "Delete", "Template") for n in prog[:idx])


def replay_chunk(cases: List[Dict[str, Any]]):
    from ..seams import run_nodes

    out = {"n": 0, "antecedent": 0, "exact": 0, "viol": [], "drift": [], "inv_checked": 0}
    cache: Dict[str, Any] = {}
    red_cache: Dict[str, Any] = {}
    for case in cases:
        out["n"] += 1
        pk = prog_key(case["prog"])
        nodes = g_prog(case["prog"])
        if pk not in cache:
            try:
                ri = real_inspect(nodes)
            except Exception as exc:  # inspection promises never to raise
                out["viol"].append((f"inspection-raised:{pk}", f"build_pipeline_inspection raised {type(exc).__name__}: {exc}",
                                    {"case": case}))
                cache[pk] = None
                continue
            cache[pk] = ri
            # unknown parameter names: inspection vs run time (once per program)
            spec_unknown = any(r["unknown"] for r in case["rep"])
            real_unknown = [f["invalid"] for f in ri["facts"]]
            if spec_unknown or any(real_unknown):
                out["inv_checked"] += 1
                rt = runtime_invalid(nodes)
                # run time stops at the first node it cannot build; it reports unknown names
                # only when that node is the one with the unknown parameters
                first_unbuildable = next((f for f in ri["facts"] if f["unbuildable"] or f["invalid"]), None)
                first = first_unbuildable["invalid"] if first_unbuildable else []
                if (rt or []) != first:
                    out["viol"].append((f"unknown-params:{pk}",
                                        f"unknown parameters at inspection {real_unknown} vs at run time {rt}",
                                        {"case": case, "nodes": nodes}))
            if ri["clean"] != case["accepted"]:
                out["drift"].append(f"{pk}: real inspection {'accepts' if ri['clean'] else 'rejects'}, spec inspector {'accepts' if case['accepted'] else 'rejects ' + str(case['errors'])}")
            elif ri["clean"] and sorted(ri["req"]) != sorted(case["req"]):
                out["drift"].append(f"{pk}: required keys real {sorted(ri['req'])} spec {sorted(case['req'])}")
        ri = cache[pk]
        if ri is None or not ri["clean"]:
            continue
        ictx = g_ctx(case["ictx"]) if isinstance(case["ictx"], dict) else {}
        if not ri["req"] <= set(ictx):
            continue
        out["antecedent"] += 1
        # the run is built from the very object that was inspected (run_nodes takes a private copy of it per run)
        obs = run_nodes(ri["obj"], g_data(case["idata"]), ictx)
        if obs["construct_error"]:
            out["drift"].append(f"{pk}: loader rejected: {obs['construct_error'][:100]}")
            continue
        # ---- (A) soundness
        if obs["raised"] is not None and obs["exc_class"] in FLOW_CLASSES:
            rk = pk + "|" + ",".join(sorted(ictx)) + "|" + case["idata"]["ty"]
            if rk not in red_cache:
                red_cache[rk] = (reduce_soundness(case["prog"], case["idata"], ictx)
                                 if len(red_cache) < 25 else list(case["prog"]))
            red = red_cache[rk]
            rb = _first_bad(g_prog(red), g_data(case["idata"]), ictx)
            key = f"sound:{rb[0] if rb else obs['exc_class']}:{prog_key(red)}"
            out["viol"].append((key,
                                f"inspection+validation accepted (required={sorted(ri['req'])}, supplied={sorted(ictx)}) but the run fails on flow "
                                f"at node {obs['started']}: {obs['raised']}  [program: {pk}; reduced: {prog_key(red)}]",
                                {"case": case, "nodes": nodes, "reduced": g_prog(red)}))
            continue
        # ---- (B) exactness of per-node facts when the context holds exactly the required keys
        if set(ictx) != ri["req"]:
            continue
        out["exact"] += 1
        before = set(ictx)
        for i, (_d, c) in enumerate(obs["oks"]):
            after = set(c)
            f = ri["facts"][i]
            appeared, disappeared = after - before, before - after
            node_k = prog_key([case["prog"][i]])
            if not appeared <= f["created"]:
                out["viol"].append((f"facts:appeared-not-reported:{node_k}",
                                    f"node {i + 1} of [{pk}] made keys {sorted(appeared - f['created'])} appear that inspection does not report as created ({sorted(f['created'])})",
                                    {"case": case, "nodes": nodes}))
            if not (f["created"] - f["suppressed"]) <= after:
                out["viol"].append((f"facts:created-not-realised:{node_k}",
                                    f"node {i + 1} of [{pk}] is reported to create {sorted(f['created'])} but after it ran the context holds {sorted(after)}",
                                    {"case": case, "nodes": nodes}))
            if disappeared != (f["suppressed"] & before):
                out["viol"].append((f"facts:suppressed-mismatch:{node_k}",
                                    f"node {i + 1} of [{pk}]: keys that disappeared {sorted(disappeared)} vs reported suppressed {sorted(f['suppressed'])} (present before: {sorted(before)})",
                                    {"case": case, "nodes": nodes}))
            before = after
            # origins: truth = spec's dynamic provenance for this very (prog, ictx, idata)
            if i < len(case["dyn"]):
                truth = case["dyn"][i]["origins"]
                truth = {} if isinstance(truth, list) else truth
                for p, (src, j) in truth.items():
                    src = {"node": "config"}.get(src, src)
                    rep = f["origins"].get(p)
                    if rep is None or (rep[0], int(rep[1])) != (src, int(j)):
                        shape = _origin_shape(case["prog"], i, p, (src, int(j)), rep)
                        out["viol"].append((f"origin:{shape}",
                                            f"node {i + 1} of [{pk}]: parameter '{p}' actually comes from {(src, int(j))} (0 = initial context) but inspection reports {rep}",
                                            {"case": case, "nodes": nodes}))
    return out


def _origin_shape(prog, i, p, truth, rep) -> str:
    """Canonical shape of an origin mismatch: what is true vs what is reported, plus the kinds involved."""
    rep_s = f"{rep[0]}@{'node' if rep and rep[1] else 'initial'}" if rep else "absent"
    tru_s = f"{truth[0]}@{'node' if truth[1] else 'initial'}"
    writers = ""
    if truth[0] == "context" and rep and rep[0] == "context" and truth[1] and rep[1]:
        writers = f":true-writer={prog[truth[1] - 1]['kind']},reported-writer={prog[rep[1] - 1]['kind'] if 0 < rep[1] <= len(prog) else '?'}"
    return f"{prog[i]['kind']}.{p}:true={tru_s},reported={rep_s}{writers}"


def _replay(run: core.Run, cfg: str, *, simulate=None, depth=None, seed=None, timeout=2400):
    res, path = tlc.emit_cases("MC_Inspection", cfg, simulate=simulate, depth=depth, seed=seed, timeout=timeout)
    run.add_tlc(res, count_states=False)
    tot = {"n": 0, "antecedent": 0, "exact": 0, "inv_checked": 0}
    try:
        for r in pmap(replay_chunk, tlc.iter_emitted(path), chunk=600):
            for k in tot:
                tot[k] += r[k]
            for key, what, rep in r["viol"]:
                run.violation(key, what, rep)
            for d in r["drift"]:
                if d not in run.drift and len(run.drift) < 300:
                    run.drift.append(d)
    finally:
        try:
            os.unlink(path)
        except OSError:
            pass
    if tot["n"] == 0:
        raise core.MachineryError(f"no cases emitted by {cfg}")
    run.evaluations += tot["n"]
    run.traces_validated += tot["antecedent"]
    run.nontrivial += tot["antecedent"]
    ex = run.extra.setdefault("per_cfg", {})
    ex[cfg + (":sim" if simulate else "")] = tot


def replay_one(payload: Dict[str, Any]) -> int:
    from .. import seams

    seams.setup()
    r = replay_chunk([payload["case"]])
    for key, what, _ in r["viol"]:
        print(f"VIOLATION property=C02 replay=<given>\n  {key}\n  {what}")
    print("replay:", "violations" if r["viol"] else "no violation", {k: r[k] for k in ("antecedent", "exact")})
    return 1 if r["viol"] else 0


def environment_probe(run: core.Run) -> None:
    """C02 does not quantify over the process environment: with any SEMANTIVA_* variable that inspection or node construction
    consults (observed: vharness.envprobe) set to a few plausible values, what inspection says still holds at run time --
    an unknown parameter is reported by both with the same names, an accepted configuration still does not fail on flow."""
    from .. import envprobe, seams
    seams.setup()
    from semantiva.inspection import build_pipeline_inspection, validate_pipeline
    from ..seams import run_nodes

    cases = [
        [{"processor": "FloatValueDataSource", "parameters": {"value": 3.0}}, {"processor": "FloatMultiplyOperation", "parameters": {"factor": 2.0, "facto": 5.0}}],
        [{"processor": "FloatValueDataSource", "parameters": {"value": 3.0}}, {"processor": "FloatMultiplyOperation"}, {"processor": "FloatCollectValueProbe", "context_key": "factor"}],
        [{"processor": "FloatValueDataSource", "parameters": {"value": 3.0}}, {"processor": "delete:factor"}, {"processor": "FloatMultiplyOperation"}],
        [{"processor": "FloatValueDataSource", "parameters": {"value": 3.0}}, {"processor": "FloatCollectValueProbe", "context_key": "factor"}, {"processor": "FloatMultiplyOperation"}],
    ]

    def observe(nodes):
        insp = build_pipeline_inspection(copy.deepcopy(nodes))
        errors = []
        try:
            validate_pipeline(insp)
        except Exception as exc:
            errors.append(str(exc)[:80])
        reported = sorted({(p.get("name") if isinstance(p, dict) else str(p)) for n in insp.nodes for p in (getattr(n, "invalid_parameters", None) or [])})
        accepted = not errors and not any(getattr(n, "errors", None) for n in insp.nodes)
        o = run_nodes(copy.deepcopy(nodes), None, {k: 2.0 for k in insp.required_context_keys})
        rejected_at_run = bool(o["construct_error"]) or (o["raised"] is not None and o.get("exc_class") == "build")
        if bool(reported) != rejected_at_run:
            return f"inspection reports unknown parameters {reported}; the run {'rejects the configuration' if rejected_at_run else 'accepts it: ' + str(o.get('final'))}"
        if accepted and o["raised"] is not None and o.get("exc_class") in ("resolve", "type", "build"):
            return f"inspection + validation accept, required keys supplied, the run fails on flow: {o['raised']}"
        return None
    import copy
    for nodes in cases:
        base = observe(nodes)
        if base:
            run.violation("fixed-pipeline", f"{nodes} in the default environment: {base}", {"nodes": nodes})
            return
    names = envprobe.discover(lambda: [observe(n) for n in cases])
    run.extra["environment_variables_consulted"] = names
    for assign in envprobe.settings(names):
        with envprobe.with_env(assign):
            for nodes in cases:
                run.evaluations += 1
                bad = observe(nodes)
                if bad:
                    run.violation(f"environment:{next(iter(assign))}", f"with {assign} in the process environment, {nodes}: {bad}", {"env": assign, "nodes": nodes})


def check(tier: str) -> int:
    run = core.Run("C02", tier)
    run.rule = ("cases = (program, initial context, compatible initial data) emitted by TLC from Inspection.tla; "
                "non-trivial = the REAL inspection+validation accepted the program and the context supplies every "
                "reported required key (the property's antecedent holds), so the real run was executed and compared")
    run.assumptions = [
        "truth for parameter provenance is Pipeline.tla's lastWriter map, bound to the code by the C01 replay",
        "failure classes (build/type/resolve vs processor error) are recognised from exception type and message",
        "initial data is chosen compatible with the first data-typed node (inspection does not see the payload)",
        "a key a node both creates and suppresses (rename:a:a) is left unspecified",
    ]
    checks = ["Inspection.full2.check", "Inspection.flow3s.check"]
    if tier == "thorough":
        checks += ["Inspection.flow3.check", "Inspection.flow4.check", "Inspection.feed4.check"]
    for cfg in checks:
        res = tlc.run_tlc("MC_Inspection", cfg, coverage=True, timeout=3000)
        run.add_tlc(res)
        run.require_tlc_ok(res, cfg)
    vac = tlc.run_tlc("MC_Inspection", "Inspection.vacuity", timeout=900, expect_violation=True)
    if vac.violated != "NeverAccepted":
        raise core.MachineryError("vacuity: no accepted program with exactly-required context and >= 2 completed nodes in the model")
    run.add_tlc(vac, count_states=False)
    run.constants = {"full": "39 instances len<=2 x 64 contexts", "flow": "14 instances len<=3 (thorough 4) x 64 contexts"}
    seed = core.seed()
    if tier == "quick":
        _replay(run, "Inspection.full2.emit")
        _replay(run, "Inspection.flow3s.emit")
        _replay(run, "Inspection.sim.emit", simulate="num=3000", depth=20, seed=seed + 3)
    else:
        _replay(run, "Inspection.full2.emit")
        _replay(run, "Inspection.flow3.emit", timeout=6000)
        _replay(run, "Inspection.flow4s.emit", timeout=6000)
        _replay(run, "Inspection.full3s.emit", timeout=6000)
        _replay(run, "Inspection.feed4.emit", timeout=6000)
        _replay(run, "Inspection.sim.emit", simulate="num=30000", depth=20, seed=seed + 3)
    run.exhaustive = True
    environment_probe(run)
    return run.finish()
