"""X03 -- Contracts.tla binding (growth beyond the listed properties; run as `./check X03`, not part of any
listed property's verdict).

Contracts.tla states the documented contract catalogue (SVA rules) as a decision procedure over class
DESCRIPTORS and proves, with TLC, that "no error-level diagnostic" coincides with the positive definition of a
well-formed component of each category.  Spec -> code: every descriptor TLC explores (six families that vary one
group of catalogue rows exhaustively, plus random full descriptors from `tlc -simulate`) is turned into a REAL
class with exactly those features -- how each method is declared, what it returns, what the metadata holds,
whether the metaclass registered it, the signature of _process_logic, the docstring, the wrapped processor -- and
run through the repository's validate_component; the sequence of diagnostic codes and severities (catalogue
order) must equal the model's.  Batches of the same classes go through validate_components (plain and debug mode)
and through `semantiva dev lint`, whose exit status and printed codes must follow the model."""
from __future__ import annotations

import contextlib
import inspect
import io
import itertools
import os
from typing import Any, Dict, List, Optional

from .. import core, tlc
from ..pool import pmap

IO_PAIRS = {"DataSource": ("_get_data", "get_data"), "PayloadSource": ("_get_payload", "get_payload"),
            "DataSink": ("_send_data", "send_data"), "PayloadSink": ("_send_payload", "send_payload")}
PARAMS = {"empty": {}, "dict": {"a": "float"}, "list": ["a"], "null": None, "strNone": "None", "strnone": "none",
          "int": 5, "tuple": ("a",), "emptystr": ""}
KEYVALS = {"empty": [], "ab": ["a", "b"], "bc": ["b", "c"], "dup": ["a", "a"], "nonstr": ["a", 1], "tuple": ("a", "b"),
           "str": "ab", "null": None, "int": 5, "nested": ["a", ["b"]]}
_serial = itertools.count()


def _types():
    from semantiva.examples.test_utils import FloatDataCollection, FloatDataType
    return {"F": FloatDataType, "G": FloatDataCollection}


def _tname(x: str) -> Optional[str]:
    return {"NoDataType": "NoDataType", "F": "FloatDataType", "G": "FloatDataCollection", "null": None}.get(x)


def _dt_method(form: str, ret: str, which: str):
    F = _types()["F"]

    def body():
        if ret == "raises":
            raise RuntimeError("no type")
        return {"type": F, "none": None, "str": "FloatDataType"}[ret]

    if form in ("cm", "inh"):
        return classmethod(lambda cls: body())
    if form == "plain":
        return lambda self: body()
    if form == "static":
        return staticmethod(lambda: body())
    if form == "attr":
        return F
    raise AssertionError(form)


def _process_logic(sig: str):
    from semantiva.context_processors.context_types import ContextType
    if sig == "clean":
        def f(self, data, factor: float = 1.0): return data
    elif sig == "ctxname":
        def f(self, data, context): return data
    elif sig == "ctxann":
        def f(self, data, ctx): return data
        f.__annotations__ = {"ctx": ContextType}
    elif sig == "ctxstr":
        def f(self, data, ctx): return data
        f.__annotations__ = {"ctx": "ContextType"}
    elif sig == "ctxopt":
        def f(self, data, ctx=None): return data
        f.__annotations__ = {"ctx": Optional[ContextType]}
    elif sig == "kwctx":
        def f(self, data, **context): return data
    elif sig == "sigattr":
        def f(self, *a, **k): return a[0]
        P = inspect.Parameter
        f.__signature__ = inspect.Signature([P("self", P.POSITIONAL_OR_KEYWORD), P("data", P.POSITIONAL_OR_KEYWORD),
                                             P("context", P.POSITIONAL_OR_KEYWORD)])
    elif sig == "cmctx":
        def g(cls, data, context): return data
        return classmethod(g)
    elif sig == "selfonly":
        def f(self): return None
    else:
        raise AssertionError(sig)
    return f


def _doc(d) -> Optional[str]:
    lim = 10 if d["lim"] == "ten" else 600
    return {"none": None, "short": "A short description.", "at": "x" * lim, "over": "x" * (lim + 1), "long": "y" * 2000,
            "indent": "abc" + ("\n" + " " * 300 + "x") * 3}[d["doc"]]


def _proc(kind: str):
    T = _types()
    if kind == "none":
        return None
    if kind == "bare":
        return type("VXProcBare", (), {})
    if kind == "plain":
        return type("VXProcPlain", (), {"input_data_type": lambda self: T["F"], "output_data_type": lambda self: T["F"]})
    if kind == "raises":
        def boom(cls):
            raise RuntimeError("no type")
        return type("VXProcRaises", (), {"input_data_type": classmethod(boom), "output_data_type": classmethod(boom)})
    t = T[kind]
    return type("VXProc" + kind, (), {"input_data_type": classmethod(lambda cls: t), "output_data_type": classmethod(lambda cls: t)})


def build(d: Dict[str, Any]):
    """descriptor -> (class, registry buckets it was put into by hand)"""
    from semantiva.core.semantiva_component import _SemantivaComponent, get_component_registry

    name = f"VX{next(_serial)}"
    md: Dict[str, Any] = {}
    if not d["mCls"]:
        md["class_name"] = name
    if not d["mDoc"]:
        md["docstring"] = "d"
    if d["ct"] != "none":
        md["component_type"] = d["ct"]
    for key, f in (("input_data_type", "mdIn"), ("output_data_type", "mdOut")):
        if d[f] != "absent":
            md[key] = _tname(d[f])
    if d["params"] != "absent":
        md["parameters"] = PARAMS[d["params"]]
    if d["inj"] != "absent":
        md["injected_context_keys"] = KEYVALS[d["inj"]]
    if d["sup"] != "absent":
        md["suppressed_context_keys"] = KEYVALS[d["sup"]]

    def md_method(shape: str, payload):
        def m(cls):
            if shape == "raises":
                raise RuntimeError("no metadata")
            return dict(payload) if shape == "dict" else ["not", "a", "dict"]
        return classmethod(m)

    ns: Dict[str, Any] = {"__module__": "vx03"}
    base_ns: Dict[str, Any] = {"__module__": "vx03", "__doc__": "base."}
    doc = _doc(d)
    if doc is not None:
        ns["__doc__"] = doc
    for which, form, ret in (("input_data_type", d["inD"], d["inR"]), ("output_data_type", d["outD"], d["outR"])):
        if form == "absent":
            continue
        (base_ns if form == "inh" else ns)[which] = _dt_method(form, ret, which)
    for i in range(int(d["xPlain"])):
        ns[f"aux{i}_data_type"] = lambda self: None
    if d["xCM"]:
        ns["extra_data_type"] = classmethod(lambda cls: None)
    own = IO_PAIRS.get(d["ct"])
    for cat, (m1, m2) in IO_PAIRS.items():
        forms = (d["f1"], d["f2"]) if (own is None or (m1, m2) == own) else ("plain", "plain")
        for mname, form in zip((m1, m2), forms):
            if form == "cm":
                ns[mname] = classmethod(lambda cls, *a, **k: None)
            elif form == "plain":
                ns[mname] = lambda self, *a, **k: None
    if d["defMd"] != "absent":
        ns["_define_metadata"] = md_method(d["defMd"], {"component_type": d["ct"]})
    if d["getMd"] != "absent":
        ns["get_metadata"] = md_method(d["getMd"], md)
    if d["own"]:
        ns["operate_context"] = lambda self, context=None: context
    if d["sig"] != "absent":
        ns["_process_logic"] = _process_logic(d["sig"])
    proc = _proc(d["proc"])
    if proc is not None:
        ns["processor"] = proc

    meta = d["reg"] == "meta" and d["defMd"] != "absent" and d["getMd"] != "absent"
    if d["reg"] == "meta" and not meta:
        raise core.MachineryError("descriptor asks for metaclass registration of a class without metadata methods")
    if meta:
        base = _SemantivaComponent.__class__("VXBase", (_SemantivaComponent,), dict(base_ns))   # direct subclass: never registered
        cls = _SemantivaComponent.__class__(name, (base,), ns)                                   # registered by the metaclass
    else:
        base = type("VXPlain", (), dict(base_ns))
        cls = type(name, (base,), ns)
    manual: List[str] = []
    reg = get_component_registry()
    if d["reg"] == "manual" and d["ct"] != "none":
        reg.setdefault(d["ct"], []).append(cls)
        manual.append(d["ct"])
    elif d["reg"] == "other":
        reg.setdefault("VXElsewhere", []).append(cls)
        manual.append("VXElsewhere")
    return cls


def unregister(cls) -> None:
    from semantiva.core.semantiva_component import get_component_registry
    reg = get_component_registry()
    for k in list(reg):
        if cls in reg[k]:
            reg[k] = [c for c in reg[k] if c is not cls]
        if not reg[k] and k.startswith("VX"):
            del reg[k]


@contextlib.contextmanager
def doc_limit(d):
    old = os.environ.get("SEMANTIVA_DOCSTRING_MAX_CHARS")
    if d["lim"] == "ten":
        os.environ["SEMANTIVA_DOCSTRING_MAX_CHARS"] = "10"
    else:
        os.environ.pop("SEMANTIVA_DOCSTRING_MAX_CHARS", None)
    try:
        yield
    finally:
        if old is None:
            os.environ.pop("SEMANTIVA_DOCSTRING_MAX_CHARS", None)
        else:
            os.environ["SEMANTIVA_DOCSTRING_MAX_CHARS"] = old


def brief(d) -> str:
    dflt = {"ct": "DataOperation", "inD": "cm", "outD": "cm", "inR": "type", "outR": "type", "xPlain": 0, "xCM": False, "f1": "absent",
            "f2": "absent", "defMd": "dict", "getMd": "dict", "mCls": False, "mDoc": False, "mdIn": "F", "mdOut": "F", "params": "dict",
            "inj": "absent", "sup": "absent", "reg": "meta", "own": False, "sig": "clean", "doc": "short", "lim": "default", "proc": "none"}
    return ", ".join(f"{k}={v}" for k, v in d.items() if dflt.get(k) != v) or "default"


def judge(case) -> List[tuple]:
    """Build the class of one emitted case and compare validate_component with the model."""
    from semantiva.contracts.expectations import validate_component
    d = case["d"]
    cls = build(d)
    bad: List[tuple] = []
    try:
        with doc_limit(d):
            try:
                got = validate_component(cls)
                raised = None
            except Exception as exc:        # noqa: BLE001 -- the model names the one deviation that raises
                got, raised = [], exc
        if case["crash"]:
            if type(raised).__name__ != case["raises"]:
                bad.append(("contracts:crash-expected", f"[{brief(d)}] model (named deviations ParamsRuleRaises / OverlapRuleRaises): validate_component raises "
                            f"{case['raises']}; code returned {[x.code for x in got]} / raised {raised!r}"))
            return bad
        if raised is not None:
            bad.append(("contracts:raises", f"[{brief(d)}] validate_component raised {type(raised).__name__}: {raised}; model expects {case['diags']}"))
            return bad
        codes, sevs = [x.code for x in got], [x.severity for x in got]
        if codes != list(case["diags"]):
            missing = [c for c in case["diags"] if c not in codes]
            extra = [c for c in codes if c not in case["diags"]]
            key = ("missing:" + missing[0]) if missing else ("extra:" + extra[0]) if extra else "order-or-multiplicity"
            bad.append((f"contracts:{key}", f"[{brief(d)}] catalogue asks for {list(case['diags'])}, validate_component reports {codes}"))
        elif sevs != list(case["sev"]):
            bad.append(("contracts:severity", f"[{brief(d)}] severities {sevs}, catalogue {list(case['sev'])} for {codes}"))
        for x in got:
            if x.component != f"vx03.{cls.__name__}" or not x.message:
                bad.append(("contracts:diagnostic-fields", f"[{brief(d)}] diagnostic {x.code} names component {x.component!r}, message {x.message!r}"))
                break
    finally:
        unregister(cls)
    return bad


def lint_batch(cases: List[Dict[str, Any]], base_status: int) -> List[tuple]:
    """validate_components (plain / debug) and `semantiva dev lint` over one batch of classes (same docstring limit)."""
    import argparse
    from semantiva.cli import _lint
    from semantiva.contracts.expectations import validate_components
    from semantiva.core.semantiva_component import get_component_registry

    bad: List[tuple] = []
    built = [(c, build(c["d"])) for c in cases]
    try:
        want = [code for c, _ in built for code in c["diags"]]
        for dbg in (False, True):
            got = [x.code for x in validate_components([cls for _, cls in built], debug_mode=dbg)]
            if got != want:
                bad.append(("contracts:validate_components", f"validate_components(debug_mode={dbg}) over {len(built)} classes gives {got[:12]}..., "
                            f"the per-class catalogue results concatenate to {want[:12]}..."))
        reg = get_component_registry()
        discovered = {cls.__name__: c for c, cls in built if any(cls in b for b in reg.values())}
        out = io.StringIO()
        args = argparse.Namespace(modules=None, paths=None, extensions=None, yaml=None, debug=False, export_contracts=None)
        with contextlib.redirect_stdout(out):
            status = _lint(args)
        should_fail = base_status != 0 or any(s == "error" for c in discovered.values() for s in c["sev"])
        if (status != 0) != should_fail:
            bad.append(("contracts:lint-status", f"`semantiva dev lint` exit status {status} over a registry holding {len(discovered)} synthetic classes; "
                        f"model: {'fails' if should_fail else 'passes'} (error-level diagnostics {sorted({x for c in discovered.values() for x, s in zip(c['diags'], c['sev']) if s == 'error'})})"))
        printed: Dict[str, List[str]] = {}
        cur = None
        for line in out.getvalue().splitlines():
            if line.startswith("vx03."):
                cur = line.split(".", 1)[1].strip()
                printed[cur] = []
            elif line and not line.startswith(" "):
                cur = None
            elif cur is not None and line.startswith("  ") and not line.startswith("    "):
                parts = line.split()
                if len(parts) >= 2 and parts[1].startswith("SVA"):
                    printed[cur].append(parts[1])
        for nm, c in discovered.items():
            if printed.get(nm, []) != list(c["diags"]):
                bad.append(("contracts:lint-output", f"[{brief(c['d'])}] lint prints {printed.get(nm, [])}, catalogue {list(c['diags'])}"))
                break
        ghosts = [nm for nm in printed if nm not in discovered]
        if ghosts:
            bad.append(("contracts:lint-undiscoverable", f"lint reports classes that are in no registry bucket: {ghosts[:3]}"))
    finally:
        for _, cls in built:
            unregister(cls)
    return bad


def chunk(cases: List[Dict[str, Any]]):
    import argparse
    from semantiva.cli import _lint
    out = {"n": 0, "viol": [], "codes": {}, "crash": 0, "clean": 0, "lint": 0}
    for c in cases:
        out["n"] += 1
        if c["crash"]:
            out["crash"] += 1
        if not c["diags"] and not c["crash"]:
            out["clean"] += 1
        for code in c["diags"]:
            out["codes"][code] = out["codes"].get(code, 0) + 1
        try:
            bad = judge(c)
        except core.MachineryError:
            raise
        except Exception as exc:     # noqa: BLE001
            bad = [("contracts:harness", f"[{brief(c['d'])}] could not build / judge: {type(exc).__name__}: {exc}")]
        for k, m in bad:
            out["viol"].append((k, m, {"case": c}))
    # lint level: batches of 12 classes with the default docstring limit, no crashing descriptor
    with contextlib.redirect_stdout(io.StringIO()):
        base = _lint(argparse.Namespace(modules=None, paths=None, extensions=None, yaml=None, debug=False, export_contracts=None))
    pool = [c for c in cases if not c["crash"] and c["d"]["lim"] == "default"]
    for i in range(0, min(len(pool), 96), 12):
        out["lint"] += 1
        try:
            bad = lint_batch(pool[i:i + 12], base)
        except Exception as exc:     # noqa: BLE001
            bad = [("contracts:batch-raises", f"validate_components / lint raised {type(exc).__name__}: {exc} on a batch none of whose classes "
                    f"makes the validator raise according to the model: {[brief(c['d']) for c in pool[i:i + 12]]}")]
        for k, m in bad:
            out["viol"].append((k, m, {"cases": pool[i:i + 12]}))
    out["base"] = base
    return out


def replay_one(payload):
    from .. import seams
    seams.setup()
    cases = [payload["case"]] if "case" in payload else payload["cases"]
    bad = [b for c in cases for b in judge(c)]
    for k, m in bad:
        print(f"VIOLATION property=X03 replay=<given>\n  {k}\n  {m}")
    return 1 if bad else 0


ALL_CODES = {"SVA001", "SVA002", "SVA003", "SVA004", "SVA005", "SVA006", "SVA007", "SVA008", "SVA009", "SVA010", "SVA011", "SVA012",
             "SVA100", "SVA101", "SVA102", "SVA104", "SVA105", "SVA106", "SVA107", "SVA200", "SVA201", "SVA210", "SVA211",
             "SVA220", "SVA230", "SVA231", "SVA241", "SVA250", "SVA300", "SVA301", "SVA310", "SVA311", "SVA320", "SVA321"}


def check(tier: str) -> int:
    from .. import seams
    seams.setup()
    run = core.Run("X03", tier)
    run.rule = ("descriptors = six families of Contracts.tla (each varies one group of catalogue rows over all its values) plus random full "
                "descriptors; each becomes a real class judged by validate_component (codes, order, severities), batches by "
                "validate_components and `semantiva dev lint` (status, printed codes)")
    run.assumptions = ["a descriptor abstracts a class to the features the catalogue names; the harness synthesises one class per descriptor",
                       "three deviations of the code from the catalogue are modelled as what the code does (ParamsRuleRaises: reporting SVA103 raises IndexError, "
                       "so SVA103/221/232 are never seen; ParamsReportedAs103; OverlapRuleRaises)"]
    res = tlc.run_tlc("MC_Contracts", "Contracts.check", coverage=False, timeout=1800)
    run.add_tlc(res)
    run.require_tlc_ok(res, "Contracts.check")
    sens = tlc.run_tlc("MC_Contracts", "Contracts.sens", timeout=1800, expect_violation=True)
    if not sens.violated:
        raise core.MachineryError("sensitivity: NoErrorIffWellFormed holds even with the registration clause dropped from WellFormed")
    codes: Dict[str, int] = {}
    total = crash = clean = lint = 0
    plans = [("Contracts.emit", None)]
    nrand = 4000 if tier == "quick" else 40000
    plans.append(("Contracts.random", nrand))
    for cfg, num in plans:
        if num is None:
            res, path = tlc.emit_cases("MC_Contracts", cfg, timeout=3000)
        else:
            res, path = tlc.emit_cases("MC_Contracts", cfg, simulate=f"num={num}", depth=3, seed=core.seed() + 3, timeout=3000)
        run.add_tlc(res, count_states=False)
        try:
            for r in pmap(chunk, tlc.iter_emitted(path), chunk=1500):
                total += r["n"]
                crash += r["crash"]
                clean += r["clean"]
                lint += r["lint"]
                if r["base"] != 0:
                    run.extra["lint_base_status"] = r["base"]
                for k, v in r["codes"].items():
                    codes[k] = codes.get(k, 0) + v
                for k, w, rep in r["viol"]:
                    run.violation(k, w, rep)
        finally:
            os.unlink(path)
    if total == 0 or set(codes) != ALL_CODES or crash == 0 or clean == 0 or lint == 0:
        raise core.MachineryError(f"vacuity: cases={total} crash={crash} clean={clean} lint={lint} codes never expected: {sorted(ALL_CODES - set(codes))} "
                                  f"unknown: {sorted(set(codes) - ALL_CODES)}")
    run.evaluations = total
    run.traces_validated = total
    run.nontrivial = total - clean
    run.extra["contracts_model"] = {"descriptors": total, "expected_by_code": dict(sorted(codes.items())), "crashing": crash,
                                    "clean": clean, "lint_batches": lint}
    run.sample({"descriptor": "DataOperation whose metadata lacks output_data_type and whose _process_logic takes `context`",
                "expected": ["SVA220", "SVA250"]})
    run.exhaustive = True
    return run.finish()
