"""X01 -- Registry.tla binding (growth beyond the listed properties; run as `./check X01`, not part of any
listed property's verdict): every operation log of
length MaxOps explored by TLC over {register, clear, load extension, resolve, capture profile, apply
profile} is replayed into the real ProcessorRegistry / plugin registry / bootstrap profile code and
the set of registered modules and the resolvability of three probe names is compared after each step."""
from __future__ import annotations

import os
from typing import Any, Dict, List

from .. import core, tlc
from ..pool import pmap

REAL = {"examples": ["semantiva.examples.test_utils"], "vlib": ["verif_ext"]}


def replay_logs(logs: List[List[Dict[str, Any]]]):
    from semantiva.registry import load_extensions, resolve_symbol
    from semantiva.registry.bootstrap import DEFAULT_MODULES, apply_profile, current_profile
    from semantiva.registry.processor_registry import ProcessorRegistry
    import verif_ext

    real = dict(REAL, defaults=list(DEFAULT_MODULES))
    out = {"n": 0, "steps": 0, "viol": []}
    try:
        for log in logs:
            ProcessorRegistry.clear()
            captured = None
            out["n"] += 1
            for i, ev in enumerate(log):
                op, arg = ev["op"], ev["arg"]
                found = None
                try:
                    if op == "register":
                        ProcessorRegistry.register_modules(real[arg])
                    elif op == "clear":
                        ProcessorRegistry.clear()
                    elif op == "loadext":
                        load_extensions([arg])
                    elif op == "resolve":
                        try:
                            resolve_symbol(arg)
                            found = True
                        except LookupError:
                            found = False
                    elif op == "capture":
                        captured = current_profile()
                    elif op == "apply":
                        apply_profile(captured if captured is not None else type(current_profile())(load_defaults=True, modules=[]))
                except Exception as exc:
                    out["viol"].append((f"registry:{op}:raises", f"{op}({arg}) raised {type(exc).__name__}: {exc} after {[e['op'] for e in log[:i]]}", {"log": log}))
                    break
                out["steps"] += 1
                regs = ProcessorRegistry.registered_modules()
                mods = sorted(m for m, rs in real.items() if all(r in regs for r in rs))
                names = ProcessorRegistry.all_processors()
                obs = {n: (n in names) for n in ev["obs"]}
                if mods != sorted(ev["mods"]) or obs != ev["obs"] or (op == "resolve" and found != ev.get("found")):
                    out["viol"].append((f"registry:{op}", f"after {[ (e['op'], e['arg']) for e in log[:i + 1]]}: spec modules {sorted(ev['mods'])} names {ev['obs']} found={ev.get('found')}; "
                                        f"code modules {mods} names {obs} found={found}", {"log": log}))
                    break
    finally:
        ProcessorRegistry.clear()
        load_extensions(["semantiva-examples", "verif_ext"])
        verif_ext.register()
    return out


def check(tier: str) -> int:
    run_ = core.Run("X01", tier)
    run_.rule = ("every operation log of length MaxOps over {register, clear, load extension, resolve, capture, apply} "
                 "explored by TLC is replayed into the real registry; registered modules and resolvability compared per step")
    run_.exhaustive = tier == "thorough"
    run(run_, tier)
    return run_.finish()


def run(run_: core.Run, tier: str) -> None:
    res = tlc.run_tlc("MC_Registry", "Registry.check", coverage=True, timeout=1800)
    run_.add_tlc(res)
    run_.require_tlc_ok(res, "Registry.check")
    res, path = tlc.emit_cases("MC_Registry", "Registry.emit", timeout=1800)
    run_.add_tlc(res, count_states=False)
    n = steps = 0
    try:
        logs = tlc.iter_emitted(path)
        if tier == "quick":
            import itertools
            logs = itertools.islice(logs, 0, 100000, 12)
        for r in pmap(replay_logs, logs, chunk=400):
            n += r["n"]
            steps += r["steps"]
            for k, w, rep in r["viol"]:
                run_.violation(k, w, rep)
    finally:
        os.unlink(path)
    if n == 0:
        raise core.MachineryError("Registry.emit produced no logs")
    run_.extra["registry_model"] = {"operation_logs_replayed": n, "steps_compared": steps}
    run_.evaluations += n
