"""C03 -- parameter sweeps expand to exactly the documented element sequence.

TLC: Sweep.tla materialises the variable sequences (explicit, linear / decade-log ranges with and
without endpoint, from_context), enumerates the steps operationally (odometer) and by a closed form
(sorted names, rightmost fastest; by_position aligned, broadcast cycling, unequal lengths rejected)
and checks StepsAreClosedForm / CountIsClosedForm / BroadcastCycles / PublishedAll for all sweep
specifications over 1-2 variables x 8 domains x both modes x broadcast x expressions x placement of
the non-swept parameter x the three wrapped kinds.  Every terminal behaviour is emitted and replayed
as a real pipeline containing the sweep node."""
from __future__ import annotations

import math
import os
from typing import Any, Dict, List

from .. import core, tlc
from ..pool import pmap

MODE = {"comb": "combinatorial", "bp": "by_position"}
PROC = {"src": "VPairSource", "op": "VPairOperation", "probe": "VPairProbe"}


def g_domain(d) -> Dict[str, Any]:
    if d["t"] == "seq":
        return {"values": [float(x) for x in d["vals"]]}
    if d["t"] == "ctx":
        return {"from_context": d["key"]}
    out = {"lo": float(d["lo"]), "hi": float(d["hi"]), "steps": int(d["steps"]), "endpoint": bool(d["endp"])}
    if d["t"] == "log":
        out["scale"] = "log"
    return out


def g_sweep(sp) -> List[Dict[str, Any]]:
    names = sorted(sp["vars"], reverse=True)          # declared in the opposite of sorted order
    text = {"cat": "str(int(t)) + str(int(u))", "tac": "str(int(u)) + str(int(t))"}.get(
        sp["expr"], sp["expr"].replace("*", " * ").replace("+", " + ").replace("-", " - "))
    sweep: Dict[str, Any] = {"parameters": {"a": text},
                             "variables": {n: g_domain(sp["vars"][n]) for n in names},
                             "mode": MODE[sp["mode"]], "broadcast": bool(sp["bc"])}
    node: Dict[str, Any] = {"processor": PROC[sp["kind"]], "derive": {"parameter_sweep": sweep}}
    if sp["kind"] != "probe":
        sweep["collection"] = "FloatDataCollection"
    else:
        node["context_key"] = "res"
    if sp["bplace"] == "config":
        node["parameters"] = {"b": 5.0}
    pre = [] if sp["kind"] == "src" else [{"processor": "FloatValueDataSource", "parameters": {"value": 1.0}}]
    return pre + [node]


def close(a, b) -> bool:
    if isinstance(a, list) and isinstance(b, list):
        return len(a) == len(b) and all(close(x, y) for x, y in zip(a, b))
    try:
        return math.isclose(float(a), float(b), rel_tol=1e-9, abs_tol=1e-9)
    except (TypeError, ValueError):
        return a == b


def replay_chunk(cases: List[Dict[str, Any]]):
    from semantiva.data_types import NoDataType
    from ..seams import run_nodes

    out = {"n": 0, "viol": [], "errs": 0, "by_kind": {}}
    for c in cases:
        sp = c["sp"]
        nodes = g_sweep(sp)
        ctx: Dict[str, Any] = {}
        if c["ctxlist"]:
            ctx["s"] = [float(x) for x in c["ctxlist"]]
        if sp["bplace"] == "context":
            ctx["b"] = 7.0
        # a context that already holds <var>_values (left by an earlier sweep over the same variable name, or by a
        # previous run): the node publishes the sequences it materialised NOW, whatever was there
        import zlib as _zlib
        if _zlib.crc32(repr(sorted(sp["vars"])).encode() + repr(sp["expr"]).encode() + sp["kind"].encode()) % 2:
            for var in sp["vars"]:
                ctx[f"{var}_values"] = [-1.0]
        obs = run_nodes(nodes, NoDataType(), ctx)
        if obs["construct_error"]:
            out["rejected"] = out.get("rejected", 0) + 1     # not a configuration the loader accepts: outside the property
            continue
        out["n"] += 1
        out["by_kind"][sp["kind"]] = out["by_kind"].get(sp["kind"], 0) + 1
        shape = f"{sp['kind']}:{sp['mode']}{':bc' if sp['bc'] else ''}:{len(sp['vars'])}var"
        if c["outcome"] != "ok":
            out["errs"] += 1
            if obs["raised"] is None:
                out["viol"].append((f"accepted-invalid:{c['outcome']}:{shape}", f"sweep should be rejected ({c['outcome']}) but ran: {obs['final']}; {nodes[-1]}", {"case": c}))
            continue
        if obs["raised"] is not None:
            out["viol"].append((f"raised:{shape}", f"valid sweep raised {obs['raised']}; {nodes[-1]}", {"case": c}))
            continue
        def compare(obs, tag=""):
            data, fctx = obs["final"]
            want = [float(x) for x in c["out"]]
            if sp["kind"] == "probe":
                got = fctx.get("res")
                if data != ("float", 1.0):
                    out["viol"].append((tag + f"probe-not-passthrough:{shape}", f"swept probe changed the data: {data}", {"case": c}))
            else:
                got = data[1] if data[0] == "coll" else data
            if not close(got, want):
                order = "order" if isinstance(got, list) and sorted(map(float, got)) == sorted(want) else "content"
                out["viol"].append((tag + f"elements-{order}:{shape}", f"expected elements {want}, got {got}; {nodes[-1]['derive']}", {"case": c}))
            pub = c["published"] if isinstance(c["published"], dict) else {}
            for var, seq in pub.items():
                gotv = fctx.get(f"{var}_values")
                if gotv is None or not close(list(gotv), [float(x) for x in seq]):
                    out["viol"].append((tag + f"values-not-published:{sp['kind']}:{sp['vars'][var]['t']}",
                                        f"{var}_values should be {[float(x) for x in seq]} in the context, found {gotv} (context keys {sorted(fctx)}); {nodes[-1]['derive']}", {"case": c}))
        compare(obs)
        # HISTORY: the caller edits the published <var>_values (and any other list it got back) in place, then the SAME Pipeline
        # object runs again on a fresh payload: the element sequence and the published values are those of the configuration
        if _zlib.crc32(repr(sp).encode()) % 4 == 0 and obs.get("result") is not None:
            import copy as _copy
            from semantiva.pipeline import Pipeline
            from ..seams import make_recording_orchestrator
            ctx2 = {k: (list(v) if isinstance(v, list) else v) for k, v in ctx.items() if not k.endswith("_values") or k in ("s_values",)}
            try:
                pobj = Pipeline(_copy.deepcopy(nodes))
            except Exception:
                pobj = None
            if pobj is not None:
                orch = make_recording_orchestrator()
                first = run_nodes(nodes, NoDataType(), _copy.deepcopy(ctx2), pipeline=pobj, orchestrator=orch)
                if first.get("result") is not None:
                    for v_ in list(first["result"].context.to_dict().values()):
                        if isinstance(v_, list) and v_:
                            v_.reverse()
                            v_.append(-12345.0)
                    second = run_nodes(nodes, NoDataType(), _copy.deepcopy(ctx2), pipeline=pobj, orchestrator=orch)
                    if second["raised"] is None:
                        compare(second, "second-run-on-one-pipeline:")
                    else:
                        out["viol"].append((f"second-run-on-one-pipeline:raised:{shape}", f"second run of one Pipeline object raised {second['raised']}; {nodes[-1]}", {"case": c}))
    return out


def _replay(run, cfg):
    res, path = tlc.emit_cases("MC_Sweep", cfg, timeout=1800)
    run.add_tlc(res, count_states=False)
    n = 0
    try:
        for r in pmap(replay_chunk, tlc.iter_emitted(path), chunk=300):
            n += r["n"]
            run.extra["loader_rejected"] = run.extra.get("loader_rejected", 0) + r.get("rejected", 0)
            run.nontrivial += r["errs"]
            bk = run.extra.setdefault("cases_by_kind", {})
            for k, v in r["by_kind"].items():
                bk[k] = bk.get(k, 0) + v
            for key, what, rep in r["viol"]:
                run.violation(key, what, rep)
    finally:
        os.unlink(path)
    if n == 0:
        raise core.MachineryError(f"no cases from {cfg}")
    run.evaluations += n
    run.traces_validated += n


def text_value_checks(run) -> None:
    """Sweep values need not be numbers: an explicit sequence of TEXT values -- including text that looks like a
    number ("007", "1e3", "1_0", "12") -- is bound to the variable as declared, element i is the wrapped processor
    applied to the expression evaluated on the i-th declared value, and <var>_values is the declared sequence."""
    from semantiva.data_types import NoDataType
    from ..seams import run_nodes

    texts = ["007", "12", "1e3", "1_0", "3"]
    for form in ("values", "bare"):
        for kind in ("src", "op", "probe"):
            sweep = {"parameters": {"a": 'float(str(t) + "5")'}, "variables": {"t": ({"values": list(texts)} if form == "values" else list(texts))}}
            node = {"processor": PROC[kind], "parameters": {"b": 5.0}, "derive": {"parameter_sweep": sweep}}
            if kind == "probe":
                node["context_key"] = "res"
            else:
                sweep["collection"] = "FloatDataCollection"
            pre = [] if kind == "src" else [{"processor": "FloatValueDataSource", "parameters": {"value": 1.0}}]
            obs = run_nodes(pre + [node], NoDataType(), {})
            run.evaluations += 1
            base = 0.0 if kind == "src" else 1000.0
            want = [base + 10 * float(v + "5") + 5.0 for v in texts]
            if obs["construct_error"] or obs["raised"] is not None:
                run.violation(f"text-values:raises:{kind}", f"sweep over the text values {texts} ({form} form) fails: {obs['construct_error'] or obs['raised']}; {node}", {"node": node})
                continue
            data, fctx = obs["final"]
            got = fctx.get("res") if kind == "probe" else (data[1] if data[0] == "coll" else data)
            if not close(got, want):
                run.violation(f"text-values:elements:{kind}", f"sweep over the text values {texts} with a = float(str(t) + \"5\"): expected elements {want}, got {got}; {node}", {"node": node})
            if list(fctx.get("t_values") or []) != texts or any(type(x) is not str for x in fctx.get("t_values") or []):
                run.violation(f"text-values:published:{kind}", f"t_values should be the declared sequence {texts}, found {fctx.get('t_values')!r}; {node}", {"node": node})


def shadowing_checks(run) -> None:
    """FEATURE INTERACTION: a sweep variable that has the NAME of a parameter of the wrapped processor which no expression
    computes, while the node gives that parameter a value.  Documented merge: computed-by-expression > node parameters >
    defaults -- the variable feeds the expressions (a = 10 * b over b = 1, 2, 3) and the node's own b = 0.5 is what the
    processor receives for b."""
    from ..seams import run_nodes

    sw = {"parameters": {"a": "10.0 * b"}, "variables": {"b": {"values": [1.0, 2.0, 3.0]}}}
    cases = {
        "op": ([{"processor": "FloatValueDataSource", "parameters": {"value": 2.0}},
                {"processor": "VAffineOperation", "parameters": {"b": 0.5}, "derive": {"parameter_sweep": dict(sw, collection="FloatDataCollection")}}],
               [20.5, 40.5, 60.5]),
        "src": ([{"processor": "VPairSource", "parameters": {"b": 0.5}, "derive": {"parameter_sweep": dict(sw, collection="FloatDataCollection")}}],
                [100.5, 200.5, 300.5]),
        "probe": ([{"processor": "FloatValueDataSource", "parameters": {"value": 2.0}},
                   {"processor": "VPairProbe", "context_key": "res", "parameters": {"b": 0.5}, "derive": {"parameter_sweep": dict(sw)}}], None),
    }
    for kind, (nodes, want) in cases.items():
        run.evaluations += 1
        o = run_nodes(nodes, None, {})
        if o["raised"] is not None:
            run.violation(f"shadowing:{kind}:raised", f"{nodes[-1]}: raised {o['raised']}", {"kind": kind})
            continue
        data, fctx = o["final"]
        got = list(data[1]) if data[0] == "coll" else fctx.get("res")
        if want is None:
            # the probe's own arithmetic is not the point: its three results must differ (a = 10, 20, 30) and b_values is published
            ok = isinstance(got, list) and len(got) == 3 and len({repr(x) for x in got}) == 3
        else:
            ok = got == want
        if not ok or fctx.get("b_values") != [1.0, 2.0, 3.0]:
            run.violation(f"shadowing:{kind}", f"variables b = [1, 2, 3], expression a = 10.0 * b, node parameter b = 0.5: elements {got}"
                          + (f" (expected {want})" if want else " (expected three different results)") + f", b_values {fctx.get('b_values')}", {"kind": kind})


def environment_probe(run) -> None:
    """C03 does not quantify over the process environment: whatever SEMANTIVA_* variables the sweep machinery consults
    (observed, not guessed: vharness.envprobe), the element sequence stays the documented one.  The probe pipelines use
    elements whose LATER steps finish sooner."""
    from .. import envprobe
    from ..seams import run_nodes

    def sweep(proc, param, extra=None):
        n = {"processor": proc, "derive": {"parameter_sweep": {"parameters": {param: "t"}, "variables": {"t": {"values": [1.0, 2.0, 3.0, 4.0]}},
                                                               "collection": "FloatDataCollection"}}}
        if extra:
            n.update(extra)
            del n["derive"]["parameter_sweep"]["collection"]
        return n
    progs = {"op": ([{"processor": "FloatValueDataSource", "parameters": {"value": 2.0}}, sweep("VNapScale", "factor")], ("coll", [2.0, 4.0, 6.0, 8.0])),
             "src": ([sweep("VNapSource", "a")], ("coll", [10.0, 20.0, 30.0, 40.0])),
             "probe": ([{"processor": "FloatValueDataSource", "parameters": {"value": 2.0}}, sweep("VNapProbe", "factor", {"context_key": "res"})], ("ctx", [2.0, 4.0, 6.0, 8.0]))}

    def observe(kind):
        nodes, (where, want) = progs[kind]
        o = run_nodes(nodes, None, {})
        if o["raised"] is not None:
            return f"raised {o['raised']}"
        got = list(o["final"][0][1]) if where == "coll" else list(o["final"][1].get("res") or [])
        tv = o["final"][1].get("t_values")
        if got != want or tv != [1.0, 2.0, 3.0, 4.0]:
            return f"elements {got} (expected {want}), t_values {tv}"
        return None
    for kind in progs:
        base = observe(kind)
        if base:
            raise core.MachineryError(f"environment probe: the {kind} sweep is wrong in the DEFAULT environment: {base}")
    names = envprobe.discover(lambda: [observe(k) for k in progs])
    run.extra["environment_variables_consulted"] = names
    for assign in envprobe.settings(names):
        with envprobe.with_env(assign):
            for kind in progs:
                run.evaluations += 1
                bad = observe(kind)
                if bad:
                    run.violation(f"environment:{kind}:{next(iter(assign))}", f"with {assign} in the process environment the {kind} sweep over t = 1..4 gives {bad}",
                                  {"env": assign, "kind": kind})


def replay_one(payload):
    from .. import seams
    seams.setup()
    r = replay_chunk([payload["case"]])
    for k, w, _ in r["viol"]:
        print(f"VIOLATION property=C03 replay=<given>\n  {k}\n  {w}")
    return 1 if r["viol"] else 0


def check(tier: str) -> int:
    from .. import seams
    seams.setup()
    run = core.Run("C03", tier)
    run.rule = ("cases = terminal behaviours of Sweep.tla: all sweep specifications over 1-2 variables x 8 domains x modes x "
                "broadcast x expressions x placement of the non-swept parameter x {source, operation, probe}, replayed as real "
                "pipelines; non-trivial = specifications that must be rejected (unequal lengths, missing context sequence)")
    run.assumptions = ["range values are integers in the model (integral linear ranges, decade log ranges); real values compared with rel. tolerance 1e-9",
                       "surrounding-pipeline interactions of sweep nodes are covered by the SweepSrc/SweepMul/SweepSrcCtx kinds of Pipeline.tla (C01)"]
    res = tlc.run_tlc("MC_Sweep", "Sweep.all.check", coverage=True, timeout=1800)
    run.add_tlc(res)
    run.require_tlc_ok(res, "Sweep.all.check")
    run.require_actions(["DoMaterialise", "Step", "Publish"])
    _replay(run, "Sweep.all.emit")
    _replay(run, "Sweep.noctx.emit")
    if tier == "thorough":
        res3 = tlc.run_tlc("MC_Sweep", "Sweep.three.check", coverage=True, timeout=3000)
        run.add_tlc(res3)
        run.require_tlc_ok(res3, "Sweep.three.check")
        _replay(run, "Sweep.three.emit")
    text_value_checks(run)
    shadowing_checks(run)
    environment_probe(run)
    if set(run.extra.get("cases_by_kind", {})) != {"src", "op", "probe"}:
        raise core.MachineryError("vacuity: not all three wrapped kinds were exercised")
    run.sample({"spec": "probe, by_position + broadcast, t in [1,2], u in log 1..100", "node": g_sweep({"kind": "probe", "vars": {"t": {"t": "seq", "vals": [1, 2]}}, "mode": "bp", "bc": True, "expr": "2*t", "bplace": "default"})[-1]})
    run.exhaustive = True
    return run.finish()
