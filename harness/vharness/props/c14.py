"""C14 -- in-memory transport delivers every message exactly once, in channel order.

TLC: TransportImpl.tla (PlusCal, one label per source line of publish / subscription iteration,
queue objects in a heap so that orphaned deques are expressible) is explored exhaustively for
2-3 publishers, 0-1 concurrent subscribers and the final drainer with NoLoss / NoDup /
PublisherChannelFifo / MatchOnly; the variant with unsynchronised lazy creation must VIOLATE
NoLoss (sensitivity).  Transport.tla is the abstract queue spec.
impl->spec: the real, unmodified transport code is executed under a deterministic line-level
scheduler (exhaustive over all schedule prefixes of the creation race, seeded random beyond),
every append / popleft is logged at its linearization point and each history is batch-validated
by TLC against TransportTrace.tla, incl. the drained post-condition."""
from __future__ import annotations

import collections
import itertools
import json
import random
import re
import threading
import uuid
from typing import Any, Dict, List, Optional, Tuple

from .. import core, tlc
from ..pool import pmap
from ..sched import Scheduler, ThreadingShim

TARGET = "semantiva/execution/transport/in_memory.py"
CHANNELS = ["a", "b", "c.x", "c.y", "c.q.x"]


def run_schedule(scn: Dict[str, Any], chooser) -> Dict[str, Any]:
    """Execute one scenario under one schedule on the real transport; returns the history."""
    import semantiva.execution.transport.in_memory as im

    log: List[Dict[str, Any]] = []
    counter = itertools.count(1)
    pat_of: Dict[int, str] = {}
    sched_box: List[Optional[Scheduler]] = [None]

    class LoggingDeque(collections.deque):
        def append(self, msg):                       # runs under the channel lock
            n = next(counter)
            msg.data["n"] = n
            log.append({"op": "pub", "ch": msg.data["ch"], "m": n})
            return super().append(msg)

        def popleft(self):
            msg = super().popleft()
            log.append({"op": "pop", "ch": msg.data["ch"], "m": msg.data["n"],
                        "pat": pat_of.get(threading.get_ident(), "*")})
            return msg

    saved = (im.deque, im.threading)
    im.deque = LoggingDeque
    im.threading = ThreadingShim(lambda: sched_box[0])
    try:
        tr = im.InMemorySemantivaTransport()
        for ch in scn["pre"]:                        # channels that already exist
            tr.publish(ch, data={"ch": ch, "p": "warm", "k": 0}, context=None)
            for _ in tr.subscribe(ch):
                pass
        del log[:]
        sent: List[Tuple] = []
        received: List[Tuple] = []

        def publisher(pid, plan):
            def f():
                for k, ch in enumerate(plan):
                    d = {"ch": ch, "p": pid, "k": k}
                    tr.publish(ch, data=d, context=None)
                    sent.append((pid, k, ch))
            return f

        def subscriber(sid, pat):
            def f():
                pat_of[threading.get_ident()] = pat
                sub = tr.subscribe(pat)
                mine = 0
                for msg in sub:
                    received.append((sid, msg.data["p"], msg.data["k"], msg.data["ch"]))
                    mine += 1
                    if scn.get("close_after") and mine >= scn["close_after"]:
                        sub.close()          # closed from inside the loop body; the loop is left to end by itself
            return f

        def admin(ops):
            # connect() / close() are documented no-ops of the in-memory transport: whenever they are called
            # (a worker that joins late, a reconnect after close()) nothing published may be affected
            def f():
                for op in ops:
                    getattr(tr, op)()
            return f

        fns = [publisher(f"p{i}", plan) for i, plan in enumerate(scn["pubs"])] + \
              [subscriber(f"s{i}", pat) for i, pat in enumerate(scn["subs"])] + \
              ([admin(scn["admin"])] if scn.get("admin") else [])
        s = Scheduler([TARGET], chooser)
        sched_box[0] = s
        s.run(fns)
        sched_box[0] = None
        for msg in tr.subscribe("*"):                 # the property's observation point
            received.append(("drain", msg.data["p"], msg.data["k"], msg.data["ch"]))
        log.append({"op": "end"})
        return {"events": list(log), "sent": sent, "received": received, "schedule": s.trace_log,
                "errors": s.errors, "steps": s.steps}
    finally:
        im.deque, im.threading = saved


def property_check(h: Dict[str, Any], scn) -> Optional[str]:
    """The statement itself, evaluated in Python on the observation (redundant with TLC)."""
    sent = collections.Counter((p, k, ch) for p, k, ch in h["sent"])
    got = collections.Counter((p, k, ch) for _c, p, k, ch in h["received"])
    if h["errors"]:
        return f"thread error: {h['errors']}"
    if sent != got:
        lost = sorted((sent - got).elements())
        dup = sorted((got - sent).elements())
        return f"published {sum(sent.values())} messages, received {sum(got.values())}: lost {lost} duplicated/invented {dup}"
    pats = {f"s{i}": p for i, p in enumerate(scn["subs"])}
    import fnmatch
    for c, p, k, ch in h["received"]:
        if c != "drain" and not fnmatch.fnmatch(ch, pats[c]):
            return f"subscriber {c} (pattern {pats[c]}) received a message of channel {ch}"
    lastk: Dict[Tuple, int] = {}
    for e in h["events"]:
        pass
    order: Dict[Tuple, int] = {}
    for c, p, k, ch in h["received"]:
        pass
    return None


def scenario_key(scn) -> str:
    return f"pubs={scn['pubs']} subs={scn['subs']} pre={scn['pre']}" + (f" admin={scn['admin']}" if scn.get("admin") else "")


def explore_chunk(jobs: List[Tuple[Dict[str, Any], Any]]):
    out = []
    for scn, sched in jobs:
        if sched[0] == "prefix":
            bits = sched[1]

            def chooser(runnable, step, bits=bits):
                if step <= len(bits):
                    return runnable[bits[step - 1] % len(runnable)]
                return runnable[0]
        else:
            rng = random.Random(sched[1])
            sticky = sched[2]
            state = {"cur": None}

            def chooser(runnable, step, rng=rng, sticky=sticky, state=state):
                if state["cur"] in runnable and rng.random() < sticky:
                    return state["cur"]
                state["cur"] = rng.choice(runnable)
                return state["cur"]
        h = run_schedule(scn, chooser)
        out.append({"scn": scn, "sched": sched, "events": h["events"], "py": property_check(h, scn),
                    "steps": h["steps"], "preempt": sum(1 for a, b in zip(h["schedule"], h["schedule"][1:]) if a != b)})
    return out


def run_batch(traces, cfg="TransportTrace"):
    tlc.WORK.mkdir(parents=True, exist_ok=True)
    path = tlc.WORK / f"xtraces-{uuid.uuid4().hex[:8]}.json"
    path.write_text(json.dumps(traces))
    try:
        res = tlc.run_tlc("TransportTrace", cfg, workers=1, env={"TRACE_FILE": str(path)}, timeout=1800)
    finally:
        path.unlink(missing_ok=True)
    if res.violated:
        return res, None
    rej = set()
    m2 = re.search(r'"REJECTED",\s*\{([^}]*)\}', res.stdout)
    if m2:
        rej = {int(x) for x in m2.group(1).split(",") if x.strip()}
    ma = re.search(r'"ACCEPTED",\s*(\d+),\s*(\d+)', res.stdout)
    if ma and int(ma.group(1)) + len(rej) != int(ma.group(2)):
        raise core.MachineryError(f"batch verdict inconsistent: accepted {ma.group(1)} + rejected {len(rej)} != {ma.group(2)}")
    if "ACCEPTED" not in res.stdout and "MATCHED" not in res.stdout:
        raise core.MachineryError("trace validation produced no verdict:\n" + res.stdout[-1500:])
    return res, rej


def diagnose(events) -> str:
    res, _ = run_batch([events], cfg="TransportTraceDiag")
    m = re.search(r'<<"MATCHED", (-?\d+)>>', res.stdout)
    k = int(m.group(1)) if m else -1
    return f"spec explains the first {k} of {len(events)} logged events; next: {events[k] if 0 <= k < len(events) else None}; history {events}"


SCENARIOS = [
    {"pubs": [["a"], ["a"]], "subs": [], "pre": []},                       # creation race, nobody listening
    {"pubs": [["a", "b"], ["a", "a"]], "subs": ["*"], "pre": ["b"]},       # as in TransportImpl p2s1
    {"pubs": [["a", "a"], ["a", "b"]], "subs": ["a"], "pre": ["a"]},       # existing channel, exact pattern
    {"pubs": [["c.x"], ["c.y"], ["c.x"]], "subs": ["c.*"], "pre": []},     # 3 publishers, prefix wildcard
    {"pubs": [["a", "b"], ["b", "a"]], "subs": ["a", "*"], "pre": []},     # 2 subscribers, overlapping patterns
    {"pubs": [["a"], ["a"], ["a"]], "subs": [], "pre": []},                # 3-way creation race
    {"pubs": [["a", "a"]], "subs": ["a"], "pre": []},                      # exact-name subscriber racing the FIRST publish to its channel
    {"pubs": [["a", "b"]], "subs": ["*"], "pre": []},                      # wildcard subscriber scanning while channels are being created
    {"pubs": [["c.x", "c.q.x"], ["c.x"]], "subs": ["c.*.x"], "pre": []},   # a pattern whose prefix and suffix overlap on the channel "c.x"
    {"pubs": [["a", "a", "a"]], "subs": ["a"], "pre": ["a"], "close_after": 1},   # the consumer closes its subscription inside its loop
    {"pubs": [["a"], ["a"]], "subs": [], "pre": [], "admin": ["connect", "close", "connect"]},      # creation race while a late worker connects / reconnects
    {"pubs": [["a", "b"], ["b", "a"]], "subs": ["*"], "pre": [], "admin": ["close", "connect"]},
    {"pubs": [["a", "a", "a", "a", "a"]], "subs": ["a"], "pre": [], "close_after": 2},             # a backlog of several messages, the consumer stops early
    {"pubs": [["c.x", "c.q.x"], ["c.y", "c.x"]], "subs": ["c.?"], "pre": []},                      # "?" = exactly one character (c.q.x does not match)
    {"pubs": [["a", "b"], ["b", "c.x"]], "subs": ["[ab]"], "pre": ["a"]},                          # a character class without any "*"
]


def pattern_check() -> Optional[str]:
    """MatchOnly and NoLoss for every pattern form the documentation promises (Unix shell-style patterns: "*", "?", "[seq]",
    "[!seq]"), single-threaded: with all messages already queued, a subscription yields exactly the messages of the channels
    its pattern matches -- channel names that contain pattern characters included."""
    import fnmatch as _fn
    import semantiva.execution.transport.in_memory as im

    channels = ["a", "b", "c.x", "c.y", "c.q.x", "shard1", "shard[1]", "jobs.7.cfg", "jobs.12.cfg"]
    patterns = ["a", "*", "c.*", "c.?", "?", "[ab]", "[!a]", "c.*.x", "*.x", "c.[!x]", "shard[1]", "shard[[]1]", "jobs.?.cfg", "jobs.[17].cfg", "jobs.*.cfg"]
    for pat in patterns:
        tr = im.InMemorySemantivaTransport()
        for ch in channels:
            for k in range(2):
                tr.publish(ch, data=(ch, k), context=None)
        got = [m.data for m in tr.subscribe(pat)]
        want = sorted((ch, k) for ch in channels if _fn.fnmatchcase(ch, pat) for k in range(2))
        rest = sorted(m.data for m in tr.subscribe("*"))
        if sorted(got) != want:
            return f"pattern {pat!r} over channels {channels}: yielded {sorted(set(c for c, _ in got))}, the pattern matches {sorted(set(c for c, _ in want))}"
        if sorted(got + rest) != sorted((ch, k) for ch in channels for k in range(2)):
            return f"pattern {pat!r}: after the subscription and a drain, {len(got) + len(rest)} of {2 * len(channels)} messages were delivered"
        per_ch: Dict[str, List[int]] = {}
        for ch, k in got:
            per_ch.setdefault(ch, []).append(k)
        if any(v != sorted(v) for v in per_ch.values()):
            return f"pattern {pat!r}: a channel's messages were not yielded in publication order: {per_ch}"
    return None


def callback_check() -> Optional[str]:
    """The `callback=` form of subscribe() (a background thread hands every message to the callback): a callback that RAISES
    has received its message -- it is not delivered again, and what was published after it is delivered in order."""
    import semantiva.execution.transport.in_memory as im
    import time as _time

    tr = im.InMemorySemantivaTransport()
    for k in range(4):
        tr.publish("cb", data=f"m{k}", context=None)
    got_cb: List[str] = []

    def cb(msg):
        got_cb.append(msg.data)
        if len(got_cb) == 2:
            raise RuntimeError("handler failed")
    old_hook = threading.excepthook
    threading.excepthook = lambda args: None          # the failing handler's traceback is not the point
    try:
        tr.subscribe("cb", callback=cb)
        deadline = _time.time() + 5.0
        while _time.time() < deadline and threading.active_count() > 1 and len(got_cb) < 2:
            _time.sleep(0.005)
        _time.sleep(0.05)
    finally:
        threading.excepthook = old_hook
    rest = [m.data for m in tr.subscribe("cb")]
    everything = got_cb + rest
    if sorted(everything) != ["m0", "m1", "m2", "m3"] or rest != sorted(rest):
        return (f"callback subscription whose handler raises at its second message: the handler received {got_cb}, a later subscriber then received {rest} "
                f"(published once each, in order: m0 m1 m2 m3)")
    return None


def scale_check() -> Optional[str]:
    """SCALE: backlogs far beyond anything a schedule enumeration reaches -- one channel holding 100 000 undelivered
    messages, and 400 channels of 3 -- are drained completely and in publication order (plain threads, no scheduler)."""
    import semantiva.execution.transport.in_memory as im

    tr = im.InMemorySemantivaTransport()
    n = 100_000
    half = n // 2

    def pub(lo, hi):
        for k in range(lo, hi):
            tr.publish("bulk", data=k, context=None)
    ts = [threading.Thread(target=pub, args=(0, half)), threading.Thread(target=pub, args=(half, n))]
    for t in ts:
        t.start()
    for t in ts:
        t.join()
    got = [m.data for m in tr.subscribe("bulk")]
    if sorted(got) != list(range(n)):
        missing = sorted(set(range(n)) - set(got))
        return f"one channel with a backlog of {n} messages: {len(got)} delivered, {len(missing)} lost (first lost: {missing[:3]}), {len(got) - len(set(got))} duplicated"
    lo = [k for k in got if k < half]
    hi = [k for k in got if k >= half]
    if lo != sorted(lo) or hi != sorted(hi):
        return "one channel with a backlog of 100000 messages: a publisher's messages were not delivered in publication order"
    for c in range(400):
        for k in range(3):
            tr.publish(f"jobs.{c}.cfg", data=(c, k), context=None)
    seen: Dict[int, List[int]] = {}
    for m in tr.subscribe("jobs.*.cfg"):
        seen.setdefault(m.data[0], []).append(m.data[1])
    if len(seen) != 400 or any(v != [0, 1, 2] for v in seen.values()):
        return f"400 channels of 3 messages: {len(seen)} channels delivered, {sum(1 for v in seen.values() if v != [0, 1, 2])} of them incomplete or out of order"
    return None



def check(tier: str) -> int:
    from .. import seams

    seams.setup()
    run = core.Run("C14", tier)
    run.rule = ("schedules = (scenario, chooser) pairs executed on the real transport under the line scheduler: all 2^L "
                "choice prefixes of the first L scheduling decisions for the race scenarios, seeded random (uniform and "
                "sticky) beyond; each history is validated by TLC against TransportTrace.tla and by the statement itself; "
                "non-trivial = schedules with at least 2 preemptions")
    run.assumptions = ["line granularity = sys.settrace 'call'/'line' events inside in_memory.py; C-level atomicity of "
                       "dict/deque primitives under the GIL is assumed", "locks are replaced by cooperative locks (same semantics)"]
    for cfg, expect in (("TransportImpl.p2s1.locked", None), ("TransportImpl.p2s1a.locked", None),
                        ("TransportImpl.p3.locked", None), ("TransportImpl.p2.unlocked", "NoLoss")):
        res = tlc.run_tlc("MC_TransportImpl", cfg, coverage=True, timeout=1800, expect_violation=bool(expect))
        run.add_tlc(res, count_states=expect is None)
        if expect is None:
            run.require_tlc_ok(res, cfg)
        elif res.violated != expect:
            raise core.MachineryError(f"sensitivity: {cfg} should violate {expect} (model cannot express the lost-message race)")
    res = tlc.run_tlc("Transport", "Transport.abs.check", coverage=True, timeout=600)
    run.add_tlc(res)
    run.require_tlc_ok(res, "Transport.abs")
    run.require_actions(["p_factory", "p_store", "p_append", "c_pop", "Publish", "Deliver"])
    seed = core.seed()
    L = 10 if tier == "quick" else 13
    jobs: List[Tuple[Dict[str, Any], Any]] = []
    for scn in (SCENARIOS[0], SCENARIOS[5], SCENARIOS[6], SCENARIOS[7]):
        nthreads = len(scn["pubs"]) + len(scn["subs"])
        for bits in itertools.product(range(nthreads), repeat=L if nthreads == 2 else (6 if tier == "quick" else 8)):
            jobs.append((scn, ("prefix", bits)))
    nrand = 250 if tier == "quick" else 6000
    for si, scn in enumerate(SCENARIOS):
        for i in range(nrand):
            jobs.append((scn, ("random", seed * 100003 + si * 7919 + i, [0.0, 0.5, 0.85][i % 3])))
    histories = []
    for chunk in pmap(explore_chunk, jobs, chunk=120):
        histories += chunk
    run.evaluations = len(histories)
    run.nontrivial = sum(1 for h in histories if h["preempt"] >= 2)
    rejected = 0
    for i in range(0, len(histories), 4000):
        batch = histories[i:i + 4000]
        res, rej = run_batch([h["events"] for h in batch])
        run.add_tlc(res)
        if rej is None:
            run.violation("history-invariant:" + str(res.violated), res.error_trace[:1500], {})
            continue
        rejected += len(rej)
        for j in sorted(rej)[:3]:
            h = batch[j - 1]
            run.violation(f"history:{scenario_key(h['scn'])}",
                          f"schedule {h['sched']} of scenario {scenario_key(h['scn'])}: recorded history is not a behaviour of Transport.tla: {diagnose(h['events'])[:900]}",
                          {"scenario": h["scn"], "sched": list(h["sched"])})
    for h in histories:
        if h["py"]:
            run.violation(f"history:{scenario_key(h['scn'])}", f"schedule {h['sched']}: {h['py']}",
                          {"scenario": h["scn"], "sched": list(h["sched"])})
    bad_pat = pattern_check()
    run.evaluations += 15
    if bad_pat:
        run.violation("patterns:single-threaded", bad_pat, {"patterns": True})
    bad_cb = callback_check()
    run.evaluations += 1
    if bad_cb:
        run.violation("callback-subscription:handler-raises", bad_cb, {"callback": True})
    bad_scale = scale_check()
    run.evaluations += 1
    if bad_scale:
        run.violation("scale:backlog", bad_scale, {"scale": True})
    # C14 does not quantify over the process environment: with any SEMANTIVA_* variable the transport consults (observed,
    # not guessed) set to a few plausible values, nothing may be lost either
    from .. import envprobe

    def touch_transport():
        import semantiva.execution.transport.in_memory as im
        t = im.InMemorySemantivaTransport()
        t.connect()
        t.publish("a", data=1, context=None)
        list(t.subscribe("a"))
        list(t.subscribe("*"))
        t.close()
    names = envprobe.discover(touch_transport)
    run.extra["environment_variables_consulted"] = names
    for assign in envprobe.settings(names):
        with envprobe.with_env(assign):
            run.evaluations += 1
            bad_env = scale_check()
            if bad_env:
                run.violation(f"environment:{next(iter(assign))}", f"with {assign} in the process environment: {bad_env}", {"env": assign})
    run.traces_validated = len(histories) - rejected
    run.extra["schedules"] = {"prefix_exhaustive_L": L, "total": len(histories), "rejected_by_spec": rejected,
                              "max_steps": max(h["steps"] for h in histories)}
    run.sample({"scenario": histories[0]["scn"], "history": histories[0]["events"]})
    run.exhaustive = False
    return run.finish()


def replay_one(payload):
    from .. import seams
    seams.setup()
    r = explore_chunk([(payload["scenario"], tuple(payload["sched"]))])[0]
    res, rej = run_batch([r["events"]])
    bad = r["py"] or (rej is None) or bool(rej)
    print("replay:", r["py"] or ("rejected by TransportTrace" if bad else "history accepted"), r["events"])
    if bad:
        print("VIOLATION property=C14 replay=<given>")
    return 1 if bad else 0
