"""C15 -- every queued job's Future completes once, with that job's own result.

TLC: JobQueue.tla (master FIFO, cfg/status messages in flight, workers, futures; one action per
critical section) checked for 3 jobs x 2 workers (all outcome assignments) and 4 x 3 with
ResolveOnce / OwnResult / Conservation / StickyFuture and, under weak fairness, the liveness
property that every enqueued job's Future completes -- also for failing jobs; the variant in which
a worker only logs a failure must violate it.
impl->spec: batches of distinct jobs (a failing job at every position) are run through the real
QueueSemantivaOrchestrator and worker_loop threads with randomised switch intervals and enqueue
timing; transport messages are logged at deque.append/popleft, Future completion by callback; each
history is validated by TLC against JobQueueTrace.tla, and every Future's value is compared with
a direct run of that job's pipeline (code vs code)."""
from __future__ import annotations

import collections
import itertools
import json
import random
import re
import sys
import threading
import time
import uuid
from typing import Any, Dict, List, Optional

from .. import core, tlc
from ..pool import pmap


def job_spec(rng: random.Random, i: int, fail: bool) -> Dict[str, Any]:
    """A distinct pipeline + payload per job (distinct results make cross-talk visible)."""
    f1 = float(rng.randint(2, 9))
    add = float(100 * (i + 1) + rng.randint(0, 50))
    nodes: List[Dict[str, Any]] = [
        {"processor": "FloatMultiplyOperation", "parameters": {"factor": f1}},
        {"processor": "FloatAddOperation", "parameters": {"addend": add}},
        {"processor": "FloatCollectValueProbe", "context_key": f"probe_{i}"},
    ]
    if fail:
        kind = rng.choice(["boom", "resolve", "type", "silent"])
        pos = rng.randint(0, len(nodes))
        bad = {"boom": {"processor": "VBoomOperation"},
               "silent": {"processor": "VSilentFail"},                       # an exception without any message

               "resolve": {"processor": "FloatMultiplyOperation"},          # factor nowhere
               "type": {"processor": "FloatCollectionSumOperation"}}[kind]
        nodes.insert(pos, bad)
    if not fail and i % 5 == 4:
        # a payload that is FALSY without being absent: an empty collection through an element-wise node and a probe
        return {"nodes": [{"processor": "slice:FloatMultiplyOperation:FloatDataCollection", "parameters": {"factor": f1}},
                          {"processor": "slice:FloatCollectValueProbe:FloatDataCollection", "context_key": f"probe_{i}"}],
                "value": "empty-collection", "ctx": {f"in_{i}": float(i) + add}, "fail": False}
    if not fail and i % 7 == 2:
        # FEATURE INTERACTION: the payload context already carries the CALLER's own "job_id" and the pipeline works on that key
        # (renames it away); the Future still completes with the direct result plus the queue's job-id annotation
        return {"nodes": nodes + [{"processor": f"rename:job_id:source_job_{i}"}], "value": float(rng.randint(1, 20)),
                "ctx": {f"in_{i}": float(i), "job_id": f"caller-{i}"}, "fail": False}
    if not fail and i % 5 == 3:
        # a context-only job: no data goes in, none comes out (NoDataType), only the context is worked on
        return {"nodes": [{"processor": f"rename:in_{i}:out_{i}"}], "value": None, "ctx": {f"in_{i}": float(i) + add}, "fail": False}
    return {"nodes": nodes, "value": float(rng.randint(1, 20)), "ctx": {f"in_{i}": float(i)}, "fail": fail}


def run_batch_real(params: Dict[str, Any]) -> Dict[str, Any]:
    import semantiva.execution.transport.in_memory as im
    from semantiva.context_processors import ContextType
    from semantiva.data_types import NoDataType
    from semantiva.examples.test_utils import FloatDataType
    from semantiva.execution.executor.executor import SequentialSemantivaExecutor
    from semantiva.execution.job_queue.queue_orchestrator import QueueSemantivaOrchestrator
    from semantiva.execution.job_queue.worker import worker_loop
    from semantiva.logger import Logger
    from ..seams import run_nodes
    from ..gamma import a_ctx, a_data

    def _payload(v):
        from semantiva.examples.test_utils import FloatDataCollection
        if v is None:
            return NoDataType()
        if v == "empty-collection":
            return FloatDataCollection.from_list([])
        return FloatDataType(v)

    rng = random.Random(params["seed"])
    n, nworkers = params["njobs"], params["nworkers"]
    fail_at = set(params["fail_at"])
    jobs = [job_spec(rng, i, i in fail_at) for i in range(n)]
    log: List[tuple] = []
    seq = itertools.count()
    widx: Dict[int, int] = {}

    known_ids: set = set()

    class LoggingDeque(collections.deque):
        def append(self, msg):
            md = msg.metadata or {}
            if "pipeline" in md:
                log.append((next(seq), "cfg", md.get("job_id"), None, None))
            else:
                jid = md.get("job_id") or (msg.context.get_value("job_id") if msg.context is not None else None)
                if jid is None or jid not in known_ids:          # a Pipeline's own node-output publish (its context may hold the
                    return super().append(msg)                   # CALLER's own "job_id" key), not master/worker traffic
                log.append((next(seq), "status", jid, widx.get(threading.get_ident()), "error" if md.get("error") is not None else "result"))
            return super().append(msg)

        def popleft(self):
            msg = super().popleft()
            md = msg.metadata or {}
            if "pipeline" in md:
                log.append((next(seq), "take", md.get("job_id"), widx.get(threading.get_ident()), None))
            return msg

    saved = im.deque
    im.deque = LoggingDeque
    old_si = sys.getswitchinterval()
    sys.setswitchinterval(params["switch"])
    if params.get("perturb") and params["perturb"] != "focus-enqueue":
        # schedule perturbation: random sub-millisecond yields at line boundaries of the transport /
        # job-queue modules in every thread started from here on (changes timing only)
        prng = random.Random(params["seed"] ^ 0x5EED)
        targets = ("transport/in_memory.py", "job_queue/worker.py", "job_queue/queue_orchestrator.py")

        focus = params["perturb"] == "focus"     # long pauses inside publish(): between looking a channel up and appending

        def _tracer(frame, event, arg):
            if frame.f_code.co_filename.endswith(targets):
                if event == "line":
                    if focus:
                        if frame.f_code.co_name == "publish" and prng.random() < 0.7:
                            time.sleep(prng.random() * 0.004)
                        elif prng.random() < 0.05:
                            time.sleep(prng.random() * 0.0004)
                    elif prng.random() < params["perturb"]:
                        time.sleep(prng.random() * 0.0004)
                return _tracer
            return None
        threading.settrace(_tracer)
    out: Dict[str, Any] = {"params": params}
    try:
        transport = im.InMemorySemantivaTransport()
        lg = Logger()
        master = QueueSemantivaOrchestrator(transport=transport, logger=lg)

        class _RecDict(dict):
            """pending_futures with a record of every registration (a job may be finished -- and its entry gone --
            before the caller of enqueue() gets to look)."""
            registered: List[tuple] = []

            def __setitem__(self, k, v):
                known_ids.add(k)
                _RecDict.registered.append((k, v))
                return super().__setitem__(k, v)
        _RecDict.registered = []
        master.pending_futures = _RecDict(master.pending_futures)
        mt = threading.Thread(target=master.run_forever, daemon=True)
        stop = threading.Event()

        def wl(k):
            widx[threading.get_ident()] = k + 1
            worker_loop(k, transport, SequentialSemantivaExecutor(), stop, lg, 0.005)

        life = params.get("life")
        stop_a = threading.Event()

        def wl_a(k):      # first generation of workers (recycle mode): told to stop in the middle of the batch
            widx[threading.get_ident()] = k + 1
            worker_loop(k, transport, SequentialSemantivaExecutor(), stop_a, lg, 0.005)

        wts = [threading.Thread(target=wl_a if life == "recycle" else wl, args=(k,), daemon=True) for k in range(nworkers)]
        wts_b = [threading.Thread(target=wl, args=(k + nworkers,), daemon=True) for k in range(nworkers)] if life == "recycle" else []
        if life != "late-master":
            mt.start()
            for t in wts:
                t.start()
        futs = []
        ids: List[Optional[str]] = []

        def enqueue_all():
          for i, jb in enumerate(jobs):
              if life == "recycle" and i == max(1, n // 2):
                  # "stop one worker, keep the queue running": the first generation is told to stop while jobs are
                  # still on the transport, a second generation joins the same transport and finishes the backlog
                  stop_a.set()
                  for t in wts_b:
                      t.start()
              if rng.random() < 0.5:
                  time.sleep(rng.random() * 0.004)
              before = set(master.pending_futures)
              if params.get("reseed"):
                  # a caller that re-seeds the GLOBAL random generator before preparing each job (reproducible payloads):
                  # the process's PRNG state is the same at every enqueue
                  random.seed(20261005)
              log.append((next(seq), "enq", i + 1, None, None))
              if params.get("perturb") == "focus-enqueue":
                  # the caller is held at every line of enqueue() for longer than a job's whole round trip
                  # (publish -> worker -> status -> master): whatever enqueue does must be in place before the job can finish
                  def _enq_tracer(frame, event, arg):
                      if frame.f_code.co_name == "enqueue" and frame.f_code.co_filename.endswith("queue_orchestrator.py"):
                          if event == "line":
                              time.sleep(0.35)
                          return _enq_tracer
                      return None
                  sys.settrace(_enq_tracer)
              try:
                  fut = master.enqueue(jb["nodes"], data=_payload(jb["value"]),
                                       context=ContextType(dict(jb["ctx"])), return_future=True)
              finally:
                  if params.get("perturb") == "focus-enqueue":
                      sys.settrace(None)
              new = set(master.pending_futures) - before
              jid = next((k for k, v in list(_RecDict.registered) if v is fut), None) \
                  or next((k for k, v in list(master.pending_futures.items()) if v is fut), None) or (next(iter(new)) if new else None)
              ids.append(jid)
              fut.add_done_callback(lambda f, i=i: log.append((next(seq), "resolve", i + 1, None,
                                                                "error" if f.exception() is not None else "result")))
              futs.append(fut)
        if life == "late-master":
            # the whole batch is submitted BEFORE the master loop and the workers exist (the plain script: enqueue
            # everything, start the machinery, wait): enqueue() must hand out every Future without anyone consuming
            et = threading.Thread(target=enqueue_all, daemon=True)
            et.start()
            et.join(timeout=20.0)
            out["enqueue_stuck"] = et.is_alive()
            mt.start()
            for t in wts:
                t.start()
            et.join(timeout=60.0)
        else:
            enqueue_all()
        deadline = time.time() + params.get("timeout", 30.0)
        results = []
        for i, fut in enumerate(futs):
            try:
                res = fut.result(timeout=max(0.05, deadline - time.time()))
                results.append(("result", a_data(res[0]), a_ctx(res[1])))
            except TimeoutError:
                results.append(("timeout",))
            except BaseException as exc:  # noqa: BLE001
                results.append(("error", type(exc).__name__, str(exc)[:160]))
        stop.set()
        master.running = False
        mt.join(timeout=2.0)
        for t in wts + wts_b:
            if t.ident is not None:
                t.join(timeout=2.0)
        # direct execution of every job (code vs code)
        direct = []
        for jb in jobs:
            o = run_nodes(jb["nodes"], _payload(jb["value"]), dict(jb["ctx"]))
            direct.append(("result", o["final"][0], o["final"][1]) if o["raised"] is None
                          else ("error", type(o["exc"]).__name__, str(o["exc"])[:160]))
        idmap = {jid: i + 1 for i, jid in enumerate(ids) if jid}
        events = []
        for _s, e, j, w, kind in sorted(log):
            jj = j if e in ("enq", "resolve") else idmap.get(j)
            if jj is None:
                events.append({"e": "unknown-job", "j": 0, "w": 0, "kind": str(j)})
                continue
            events.append({"e": e, "j": jj, "w": w or 0, "kind": kind or ""})
        out.update(events=events, results=results, direct=direct, ids=ids, njobs=n,
                   outcome=["fail" if jb["fail"] else "ok" for jb in jobs])
    finally:
        im.deque = saved
        sys.setswitchinterval(old_si)
        threading.settrace(None)
    return out


def value_check(h: Dict[str, Any]) -> Optional[str]:
    if h.get("enqueue_stuck"):
        return (f"batch of {h['njobs']} jobs submitted before the master loop was started: enqueue() had not returned after 20 s "
                f"({len(h['results'])} Futures handed out) -- the caller is stuck and the Futures never complete")
    for i, (got, want) in enumerate(zip(h["results"], h["direct"])):
        jid = h["ids"][i]
        if got[0] == "timeout":
            return f"job {i + 1} ({'failing' if h['outcome'][i] == 'fail' else 'ok'} job): Future still pending after the timeout"
        if want[0] == "result":
            exp_ctx = dict(want[2])
            exp_ctx["job_id"] = jid
            if got[0] != "result" or got[1] != want[1] or got[2] != exp_ctx:
                return f"job {i + 1}: Future gave {got} but running its pipeline directly gives {(want[1], exp_ctx)}"
        else:
            if got[0] != "error":
                return f"job {i + 1}: its pipeline raises {want[1:]} but the Future completed with {got}"
            if got[1] != want[1]:
                return f"job {i + 1}: pipeline raises {want[1]} but the Future raised {got[1]}: {got[2]}"
    return None


def batch_chunk(plist):
    return [run_batch_real(p) for p in plist]


def tlc_batch(traces, cfg="JobQueueTrace"):
    tlc.WORK.mkdir(parents=True, exist_ok=True)
    path = tlc.WORK / f"jtraces-{uuid.uuid4().hex[:8]}.json"
    path.write_text(json.dumps([{"outcome": t["outcome"], "events": t["events"]} for t in traces]))
    try:
        res = tlc.run_tlc("JobQueueTrace", cfg, workers=1, env={"TRACE_FILE": str(path)}, timeout=1800)
    finally:
        path.unlink(missing_ok=True)
    if res.violated:
        return res, None
    rej = set()
    m2 = re.search(r'"REJECTED",\s*\{([^}]*)\}', res.stdout)
    if m2:
        rej = {int(x) for x in m2.group(1).split(",") if x.strip()}
    ma = re.search(r'"ACCEPTED",\s*(\d+),\s*(\d+)', res.stdout)
    if ma and int(ma.group(1)) + len(rej) != int(ma.group(2)):
        raise core.MachineryError("batch verdict inconsistent")
    if "ACCEPTED" not in res.stdout and "MATCHED" not in res.stdout:
        raise core.MachineryError("trace validation produced no verdict:\n" + res.stdout[-1500:])
    return res, rej


def diagnose(t) -> str:
    res, _ = tlc_batch([t], cfg="JobQueueTraceDiag")
    m = re.search(r'<<"MATCHED", (-?\d+)>>', res.stdout)
    k = int(m.group(1)) if m else -1
    ev = t["events"]
    return f"spec explains the first {k} of {len(ev)} events; next {ev[k] if 0 <= k < len(ev) else '(end: some Future not done)'}; events {ev[:40]}"


def check(tier: str) -> int:
    from .. import seams

    seams.setup()
    run = core.Run("C15", tier)
    run.rule = ("batches = (job count 1..40, workers 1..4, switch interval, enqueue timing, failing job positions) run on the "
                "real master/worker threads; each recorded history validated by TLC, each Future compared with direct "
                "execution; non-trivial = batches containing a failing job or >= 2 workers")
    run.assumptions = ["liveness is observed as 'every Future done within the timeout' (30 s per batch)",
                       "message events are logged inside deque.append/popleft (under the channel lock), Future completion by done-callback"]
    for cfg, expect in (("JobQueue.j3w2.check", None), ("JobQueue.j4w3.check", None), ("JobQueue.j3w2.noreport", "EveryFutureCompletes"),
                        ("JobQueue.j3w2.dropjob", "Conservation")):
        res = tlc.run_tlc("MC_JobQueue", cfg, coverage=True, timeout=1800, expect_violation=bool(expect))
        run.add_tlc(res, count_states=expect is None)
        if expect is None:
            run.require_tlc_ok(res, cfg)
        elif res.violated != expect:
            raise core.MachineryError(f"sensitivity: {cfg} should violate {expect}")
    run.require_actions(["Enqueue", "MasterPublish", "WorkerTake", "WorkerRunOk", "WorkerRunFail", "MasterResolve", "WorkerExit"])
    rng = random.Random(core.seed() + 15)
    plist = []
    nb = 64 if tier == "quick" else 600
    for b in range(nb):
        n = rng.choice([1, 2, 3, 4, 5, 6, 8, 12]) if b % 12 else (40 if tier != "quick" or b in (0, 36) else 20)
        slow_enqueue = b % 16 == 5          # a few small batches with the caller held inside enqueue()
        if slow_enqueue:
            n = 2
        # a failing job at every position over the batches of one size, plus batches without failures
        fail_at = [] if b % 4 == 3 else sorted({b % n} | ({rng.randrange(n)} if rng.random() < 0.3 else set()))
        life = None
        if b % 16 == 9 or b == 36:
            life = "late-master"            # incl. one 40-job batch: more jobs waiting than any plausible internal bound
        elif b % 16 == 13:
            life = "recycle"
            n = max(n, 4)
            fail_at = [x for x in fail_at if x < n]
        if b % 16 == 7 and n >= 3:
            fail_at = sorted(set(range(n)) - {rng.randrange(n)})        # (almost) every job fails: several failure reports in flight at once
        plist.append({"seed": core.seed() * 9973 + b, "njobs": n, "nworkers": rng.randint(1, 2) if life == "recycle" else rng.randint(1, 4),
                      "switch": 10 ** rng.uniform(-6, -2.3), "fail_at": fail_at, "timeout": 90.0, "life": life, "reseed": b % 8 == 3,
                      "perturb": "focus-enqueue" if slow_enqueue else [0, 0.05, 0.25, "focus"][b % 4]})
    hist = []
    for chunk in pmap(batch_chunk, plist, chunk=3, tasks_per_child=4):
        hist += chunk
    run.evaluations = len(hist)
    run.nontrivial = sum(1 for h in hist if h["params"]["fail_at"] or h["params"]["nworkers"] >= 2)
    rejected = []
    for i in range(0, len(hist), 300):
        batch = hist[i:i + 300]
        res, rej = tlc_batch(batch)
        run.add_tlc(res)
        if rej is None:
            run.violation("history-invariant:" + str(res.violated), res.error_trace[:1500], {})
            continue
        rejected += [batch[j - 1] for j in sorted(rej)]
    for h in hist:
        msg = value_check(h)
        if msg:
            kind = "enqueue-stuck" if "enqueue() had not returned" in msg else "pending" if "still pending" in msg and "(ok job)" in msg else "failing-job-future" if ("pending after" in msg or "raises" in msg) and "failing" in msg or "pipeline raises" in msg else "wrong-value"
            run.violation(f"future:{kind}", f"batch {h['params']}: {msg}", {"params": h["params"]})
    for h in rejected[:6]:
        if value_check(h):
            continue  # already reported through the value check
        run.violation("history:not-a-behaviour", f"batch {h['params']}: " + diagnose(h)[:1200], {"params": h["params"]})
    run.traces_validated = len(hist) - len(rejected)
    run.extra["batches"] = {"total": len(hist), "rejected_by_spec": len(rejected),
                            "jobs_total": sum(h["njobs"] for h in hist),
                            "failing_jobs": sum(len(h["params"]["fail_at"]) for h in hist)}
    run.sample({"params": hist[0]["params"], "events": hist[0]["events"][:12], "results": hist[0]["results"][:2]})
    return run.finish()


def replay_one(payload):
    from .. import seams
    seams.setup()
    h = run_batch_real(payload["params"])
    msg = value_check(h)
    res, rej = tlc_batch([h])
    bad = bool(msg) or rej is None or bool(rej)
    print("replay:", msg or ("history rejected" if bad else "ok"))
    if bad:
        print("VIOLATION property=C15 replay=<given>")
    return 1 if bad else 0
