"""C08 -- run-space expansion yields exactly the documented ordered list of runs.

TLC: RunSpace.tla plans sizes from lengths only, checks the cap on the planned size and only then
materialises the runs from a closed form (sorted keys, by_position aligned, combinatorial mixed
radix with the rightmost key / block fastest); CapBeforeMaterialise, UnionKeys, CountIsPlanned,
NoRunsOnReject are invariants.  Every terminal behaviour (specification -> ordered runs | error
class) is emitted and replayed through parse_pipeline_config + expand_run_space with the sources
written as csv / json / yaml / ndjson files; a sample goes through `semantiva run
--run-space-dry-run`.  Plans far larger than memory are decided arithmetically by the spec and
executed in a subprocess under an address-space limit: the max-runs error must arrive promptly."""
from __future__ import annotations

import json
import os
import shutil
import subprocess
import sys
import tempfile
import time
import zlib
from pathlib import Path
from typing import Any, Dict, List, Optional, Tuple

import yaml

from .. import core, tlc
from ..pool import pmap

KEYS = ["a", "b", "c", "d", "e"]
MODE = {"bp": "by_position", "comb": "combinatorial"}


# value skins: expansion never looks INTO a value, so one case in six is replayed with every value token v replaced by an
# unusual-but-valid concrete value that every source format must hand back exactly (CSV cells go through the documented
# coercion: an integer literal is an int of any size, a literal with "." a float, anything else -- "11e3", "s11" -- text)
SKINS = [("big-int", lambda v: 2 ** 53 + 1 + 2 * v), ("negative", lambda v: -v), ("fraction", lambda v: v + 0.5),
         ("text", lambda v: f"s{v}"), ("exponent-text", lambda v: f"{v}e3"), ("int64", lambda v: 2 ** 63 - v)]
_skin = None
# key-name skin: column names that YAML does not read as text (a bare 2019 is an int) are column names all the same:
# the documented rule is str(name), so select / rename / duplicate detection and the runs talk about "2019"
_keyskin = False


def kn(k: str) -> str:
    return str(2019 + KEYS.index(k)) if (_keyskin and k in KEYS) else k


def sv(v: int):
    return v if _skin is None else _skin[1](v)


def val(k: str, i: int):
    return sv(10 * (KEYS.index(k) + 1) + i)


def _fn(x) -> Dict[str, Any]:
    return {} if isinstance(x, list) else dict(x)


def write_source(cols: Dict[str, int], path_base: Path, h: int) -> Tuple[str, str]:
    """Write the source columns in a format chosen by hash among the feasible ones."""
    data = {kn(k): [val(k, i) for i in range(1, n + 1)] for k, n in cols.items()}
    cols = {kn(k): n for k, n in cols.items()}
    lens = set(cols.values())
    formats = ["json-map", "yaml-map"]
    if len(lens) == 1:
        formats += ["csv", "ndjson", "json-rows", "yaml-rows"]
        if lens == {0}:
            formats = ["json-map", "yaml-map", "csv"]
    elif 0 not in lens:
        # columns of different lengths written row-wise are SPARSE rows (a later row lacks a key): the same columns
        formats += ["ndjson", "json-rows", "yaml-rows"]
    f = formats[h % len(formats)]
    n = max(lens) if lens else 0
    rows = [{k: data[k][i] for k in cols if i < len(data[k])} for i in range(n)]
    if f == "csv":
        p = path_base.with_suffix(".csv")
        ks = list(cols)
        p.write_text(", ".join(ks) + "\n" + "".join(",".join(str(r[k]) for k in ks) + "\n" for r in rows))
        return "csv", p.name
    if f == "ndjson":
        p = path_base.with_suffix(".ndjson")
        p.write_text("".join(json.dumps(r) + "\n" for r in rows))
        return "ndjson", p.name
    if f == "json-rows":
        p = path_base.with_suffix(".json")
        p.write_text(json.dumps(rows))
        return "json", p.name
    if f == "yaml-rows":
        p = path_base.with_suffix(".yaml")
        p.write_text(yaml.safe_dump([{(int(k) if _keyskin else k): v for k, v in r.items()} for r in rows]))
        return "yaml", p.name
    if f == "json-map":
        p = path_base.with_suffix(".json")
        p.write_text(json.dumps(data))
        return "json", p.name
    p = path_base.with_suffix(".yaml")
    p.write_text(yaml.safe_dump({(int(k) if _keyskin else k): v for k, v in data.items()}))
    return "yaml", p.name


def g_run_space(spec: Dict[str, Any], tmp: Path, h: int) -> Dict[str, Any]:
    blocks = []
    shared: Dict[Tuple, Tuple[str, str]] = {}     # blocks with identical columns read the SAME file
    for bi, b in enumerate(spec["blocks"]):
        blk: Dict[str, Any] = {"mode": MODE[b["mode"]]}
        ctx = _fn(b["ctx"])
        if ctx or h % 3:
            blk["context"] = {kn(k): [val(k, i) for i in range(1, n + 1)] for k, n in ctx.items()}
        s = b["src"]
        if s["mode"] != "none":
            ck = tuple(sorted(_fn(s["cols"]).items()))
            if ck not in shared:
                shared[ck] = write_source(_fn(s["cols"]), tmp / f"src{bi}", h + bi)
                if (h + bi) % 7 == 3 and not (tmp / "other").exists():
                    # ENVIRONMENT (file system): the declared path goes THROUGH A SYMLINKED DIRECTORY and back up: "lnk/../<file>"
                    # denotes what the operating system says -- the file next to the link's TARGET --, not the textual collapse
                    # "<file>" (where a decoy with the same columns and other values lies)
                    (tmp / "other" / "sub").mkdir(parents=True)
                    (tmp / "lnk").symlink_to(tmp / "other" / "sub")
                    fmt, name = shared[ck]
                    real = (tmp / name).read_text()
                    (tmp / "other" / name).write_text(real)
                    import re as _re
                    (tmp / name).write_text(_re.sub(r"\d", "7", real))
                    shared[ck] = (fmt, f"lnk/../{name}")
            fmt, name = shared[ck]
            src: Dict[str, Any] = {"format": fmt, "path": name, "mode": MODE[s["mode"]]}
            if s["mode"] == "bp" and (h + bi) % 2:
                del src["mode"]          # the documented default of a source is by_position (rows are runs)
            if s["select"] != ["*"]:
                src["select"] = sorted(kn(k) for k in s["select"])
            if _fn(s["rename"]):
                src["rename"] = {kn(a): kn(b) for a, b in _fn(s["rename"]).items()}
            blk["source"] = src
        blocks.append(blk)
    rs = {"combine": MODE[spec["combine"]], "max_runs": spec["maxRuns"], "blocks": blocks}
    if spec["combine"] == "comb" and h % 3 == 0:
        del rs["combine"]                # documented default: combinatorial
    if spec["maxRuns"] == 1000 and h % 2 == 0:
        del rs["max_runs"]               # documented default: 1000
    return rs


def real_expand(rs: Dict[str, Any], tmp: Path) -> Tuple[str, Any]:
    from semantiva.configurations import parse_pipeline_config
    from semantiva.exceptions.pipeline_exceptions import PipelineConfigurationError, RunSpaceMaxRunsExceededError
    from semantiva.execution.run_space import expand_run_space

    try:
        cfg = parse_pipeline_config({"pipeline": {"nodes": []}, "run_space": rs}, base_dir=tmp)
        runs, meta = expand_run_space(cfg.run_space, cwd=tmp)
        # the specification object is the caller's: expanding it again (a retry after raising the cap, a dry run followed
        # by the launch) must give the same plan
        runs2, meta2 = expand_run_space(cfg.run_space, cwd=tmp)
        if runs2 != runs or meta2 != meta:
            return "second-expansion-differs", (runs, runs2)
        return "runs", (runs, meta)
    except RunSpaceMaxRunsExceededError as exc:
        return "max_runs", (exc.actual_runs, exc.max_runs)
    except (PipelineConfigurationError, ValueError) as exc:
        return "config", str(exc)[:160]
    except Exception as exc:      # neither a plan nor a configuration error: the expansion itself broke down
        return "crash", f"{type(exc).__name__}: {str(exc)[:160]}"


def replay_chunk(cases: List[Dict[str, Any]]):
    out = {"n": 0, "viol": [], "by_outcome": {}, "with_source": 0}
    tmp = Path(tempfile.mkdtemp(prefix="vrs-"))
    try:
        for case in cases:
            spec = case["spec"]
            if not spec["blocks"] and spec["maxRuns"] == 0:
                continue   # zero blocks with max_runs = 0: left unspecified (the single empty run)
            h = zlib.crc32(json.dumps(spec, sort_keys=True).encode())
            for f in tmp.iterdir():
                if f.is_dir() and not f.is_symlink():
                    shutil.rmtree(f)
                else:
                    f.unlink()
            global _skin
            _skin = SKINS[(h // 6) % len(SKINS)] if h % 6 == 1 else None
            global _keyskin
            _keyskin = h % 5 == 2
            out["skinned"] = out.get("skinned", 0) + (_skin is not None)
            rs = g_run_space(spec, tmp, h)
            kind, payload = real_expand(rs, tmp)
            out["n"] += 1
            exp = case["outcome"]
            out["by_outcome"][exp] = out["by_outcome"].get(exp, 0) + 1
            out["with_source"] += any(b["src"]["mode"] != "none" for b in spec["blocks"])
            shape = f"{len(spec['blocks'])}blk:{spec['combine']}:" + "+".join(b["mode"] + ("/src-" + b["src"]["mode"] if b["src"]["mode"] != "none" else "") for b in spec["blocks"])
            if exp == "runs":
                want = [{kn(k): sv(v) for k, v in _fn(r).items()} for r in case["runs"]]
                if kind == "second-expansion-differs":
                    out["viol"].append((f"second-expansion-differs:{shape}", f"run_space={rs}: expanding the same specification object twice gives {payload[0][:4]} and then {payload[1][:4]}", {"case": case, "run_space": rs}))
                    continue
                if kind != "runs":
                    out["viol"].append((f"rejected-valid:{shape}", f"spec: {len(want)} runs {want[:3]}...; code rejected with {kind}: {payload}; run_space={rs}", {"case": case, "run_space": rs}))
                    continue
                runs, meta = payload
                if runs != want:
                    what = "order" if sorted(map(_k, runs)) == sorted(map(_k, want)) else "content"
                    if _skin is not None:
                        what += f":{_skin[0]}-values"
                    out["viol"].append((f"runs-{what}:{shape}", f"run_space={rs}: expected {want[:6]} got {runs[:6]} (len {len(want)} vs {len(runs)})", {"case": case, "run_space": rs}))
                elif any(set(r) != {kn(k) for k in case["keys"]} for r in runs):
                    out["viol"].append((f"union-keys:{shape}", f"a run does not carry the union of keys {case['keys']}: {runs[:3]}", {"case": case, "run_space": rs}))
                elif meta.get("expanded_runs") != len(want):
                    out["viol"].append((f"meta-count:{shape}", f"meta.expanded_runs={meta.get('expanded_runs')} but {len(want)} runs", {"case": case, "run_space": rs}))
            elif exp == "max_runs":
                if kind != "max_runs":
                    out["viol"].append((f"cap-not-enforced:{shape}", f"planned {case['planned']} > max_runs {spec['maxRuns']} but code gave {kind}: {str(payload)[:200]}; run_space={rs}", {"case": case, "run_space": rs}))
                elif payload[0] != case["planned"]:
                    out["viol"].append((f"cap-wrong-count:{shape}", f"max-runs error reports {payload[0]} runs, planned {case['planned']}", {"case": case, "run_space": rs}))
            else:
                # a specification with a structural defect must be rejected; when it is also over the
                # cap either rejection is acceptable (which check fires first is not part of the property)
                if kind == "crash":
                    out["viol"].append((f"wrong-error:{exp}:{shape}", f"spec rejects ({exp}) with a configuration error; the code broke down with {payload}; run_space={rs}", {"case": case, "run_space": rs}))
                elif kind not in ("config", "max_runs"):
                    out["viol"].append((f"accepted-invalid:{exp}:{shape}", f"spec rejects ({exp}) but code returned {kind}: {str(payload)[:200]}; run_space={rs}", {"case": case, "run_space": rs}))
    finally:
        shutil.rmtree(tmp, ignore_errors=True)
    return out


def _k(r):
    # (keys that are not text -- the code must never hand them out -- are kept apart from their text form)
    return json.dumps(sorted((f"{type(k).__name__}:{k}", repr(v)) for k, v in r.items()))


HUGE = [
    # (name, run_space, expected planned size): the spec decides these arithmetically
    ("single-comb-block-1e9", {"combine": "combinatorial", "max_runs": 1000, "blocks": [
        {"mode": "combinatorial", "context": {"a": list(range(1000)), "b": list(range(1000)), "c": list(range(1000))}}]}, 10 ** 9),
    ("two-comb-blocks-1e12", {"combine": "combinatorial", "max_runs": 5000, "blocks": [
        {"mode": "combinatorial", "context": {"a": list(range(1000)), "b": list(range(1000))}},
        {"mode": "combinatorial", "context": {"c": list(range(1000)), "d": list(range(1000))}}]}, 10 ** 12),
    ("comb-source-1e8", {"combine": "by_position", "max_runs": 10, "blocks": [
        {"mode": "combinatorial", "context": {"a": list(range(100))},
         "source": {"format": "json", "path": "big.json", "mode": "combinatorial"}}]}, 10 ** 8),
    # the source's mode differs from its block's mode (rows-as-runs source inside a combinatorial block, and the reverse)
    ("comb-block-rows-source-1e9", {"combine": "combinatorial", "max_runs": 1000, "blocks": [
        {"mode": "combinatorial", "context": {"a": list(range(100)), "b": list(range(100)), "c": list(range(100))},
         "source": {"format": "json", "path": "big.json"}}]}, 10 ** 9),
    ("rows-block-comb-source-1e12", {"combine": "combinatorial", "max_runs": 1000, "blocks": [
        {"mode": "combinatorial", "context": {"a": list(range(1000)), "b": list(range(1000))}},
        {"mode": "by_position", "source": {"format": "json", "path": "big.json", "mode": "combinatorial"}}]}, 10 ** 12),
]

HUGE_SCRIPT = r"""
import json, resource, sys, time, tracemalloc
from pathlib import Path
resource.setrlimit(resource.RLIMIT_AS, (3 * 1024**3, 3 * 1024**3))
import logging; logging.disable(logging.CRITICAL)
from semantiva.configurations import parse_pipeline_config
from semantiva.execution.run_space import expand_run_space
from semantiva.exceptions.pipeline_exceptions import RunSpaceMaxRunsExceededError
rs = json.loads(sys.argv[1]); tmp = Path(sys.argv[2])
cfg = parse_pipeline_config({"pipeline": {"nodes": []}, "run_space": rs}, base_dir=tmp)
tracemalloc.start(); t0 = time.time(); out = {}
try:
    expand_run_space(cfg.run_space, cwd=tmp); out["kind"] = "runs"
except RunSpaceMaxRunsExceededError as e:
    out["kind"] = "max_runs"; out["actual"] = e.actual_runs
except MemoryError:
    out["kind"] = "MemoryError"
except Exception as e:
    out["kind"] = type(e).__name__ + ": " + str(e)[:100]
out["wall"] = time.time() - t0; out["peak_mb"] = tracemalloc.get_traced_memory()[1] / 1e6
print(json.dumps(out))
"""


def huge_checks(run: core.Run) -> None:
    for name, rs, planned in HUGE:
        tmp = Path(tempfile.mkdtemp(prefix="vrsh-"))
        try:
            (tmp / "big.json").write_text(json.dumps({"s": list(range(1000)), "t": list(range(1000))}))
            env = dict(os.environ)
            try:
                p = subprocess.run([sys.executable, "-c", HUGE_SCRIPT, json.dumps(rs), str(tmp)], capture_output=True,
                                   text=True, timeout=25, env=env)
                res = json.loads(p.stdout.strip().splitlines()[-1]) if p.stdout.strip() else {"kind": "crash: " + p.stderr[-200:]}
            except subprocess.TimeoutExpired:
                res = {"kind": "timeout>25s"}
            run.extra.setdefault("huge_plans", {})[name] = res
            run.evaluations += 1
            ok = res.get("kind") == "max_runs" and res.get("actual") == planned and res.get("wall", 99) < 2.0 and res.get("peak_mb", 1e9) < 64
            if not ok:
                run.violation(f"cap-after-materialise:{name}",
                              f"plan of {planned:,} runs > max_runs {rs['max_runs']}: expected a prompt max-runs error without materialising "
                              f"(wall < 2 s, traced peak < 64 MB); observed {res}", {"run_space": {k: v for k, v in rs.items() if k != 'blocks'}, "name": name})
        finally:
            shutil.rmtree(tmp, ignore_errors=True)


def cli_dry_run_sample(run: core.Run) -> None:
    """A few expansions through `semantiva run --run-space-dry-run` (stdout shows plan + preview)."""
    import contextlib
    import io
    from semantiva import cli

    tmp = Path(tempfile.mkdtemp(prefix="vrsc-"))
    try:
        rs = {"combine": "combinatorial", "max_runs": 100, "blocks": [
            {"mode": "combinatorial", "context": {"b": [21, 22], "a": [11, 12, 13]}},
            {"mode": "by_position", "context": {"c": [31, 32]}}]}
        doc = {"extensions": ["semantiva-examples"], "pipeline": {"nodes": [{"processor": "FloatDataSource"}]}, "run_space": rs}
        (tmp / "p.yaml").write_text(yaml.safe_dump(doc))
        buf = io.StringIO()
        code = None
        with contextlib.redirect_stdout(buf), contextlib.redirect_stderr(io.StringIO()):
            try:
                cli.main(["run", str(tmp / "p.yaml"), "--run-space-dry-run"])
            except SystemExit as e:
                code = e.code
        text = buf.getvalue()
        first = '1: {"a":11,"b":21,"c":31}'
        second = '2: {"a":11,"b":21,"c":32}'
        last = '12: {"a":13,"b":22,"c":32}'
        run.evaluations += 1
        if code != 0 or "expanded_runs: 12" not in text or first not in text or second not in text or last not in text:
            run.violation("cli-dry-run-plan", f"--run-space-dry-run exit {code}; stdout does not show the documented plan "
                          f"(expected 12 runs, preview lines {first!r}, {second!r}, {last!r}): {text[-600:]}", {"run_space": rs})
        over = dict(rs, max_runs=5)
        doc["run_space"] = over
        (tmp / "q.yaml").write_text(yaml.safe_dump(doc))
        err = io.StringIO()
        with contextlib.redirect_stdout(io.StringIO()), contextlib.redirect_stderr(err):
            try:
                cli.main(["run", str(tmp / "q.yaml"), "--run-space-dry-run"])
            except SystemExit as e:
                code = e.code
        if code != 3 or "max_runs" not in err.getvalue():
            run.violation("cli-dry-run-cap", f"over-cap run space through the CLI: exit {code}, stderr {err.getvalue()[:300]}", {"run_space": over})
    finally:
        shutil.rmtree(tmp, ignore_errors=True)


def _replay(run: core.Run, cfg: str, **kw):
    res, path = tlc.emit_cases("MC_RunSpace", cfg, **kw)
    run.add_tlc(res, count_states=False)
    n = 0
    try:
        for r in pmap(replay_chunk, tlc.iter_emitted(path), chunk=500):
            n += r["n"]
            run.extra["with_source"] = run.extra.get("with_source", 0) + r["with_source"]
            run.extra["cases_with_unusual_values"] = run.extra.get("cases_with_unusual_values", 0) + r.get("skinned", 0)
            bo = run.extra.setdefault("cases_by_outcome", {})
            for k, v in r["by_outcome"].items():
                bo[k] = bo.get(k, 0) + v
            for key, what, rep in r["viol"]:
                run.violation(key, what, rep)
    finally:
        try:
            os.unlink(path)
        except OSError:
            pass
    if n == 0:
        raise core.MachineryError(f"no cases emitted by {cfg}")
    run.evaluations += n
    run.traces_validated += n


def replay_one(payload):
    from .. import seams
    seams.setup()
    if "case" not in payload:
        print("replay: huge-plan / CLI witnesses are re-run by ./check C08")
        return 0
    r = replay_chunk([payload["case"]])
    for key, what, _ in r["viol"]:
        print(f"VIOLATION property=C08 replay=<given>\n  {key}\n  {what}")
    return 1 if r["viol"] else 0


def check(tier: str) -> int:
    from .. import seams

    seams.setup()
    run = core.Run("C08", tier)
    run.rule = ("cases = terminal behaviours of RunSpace.tla (specification -> ordered run list | error class) replayed through "
                "parse_pipeline_config + expand_run_space with sources written as csv/json/yaml/ndjson; plus plans of 1e8..1e12 "
                "runs executed in a limited subprocess; non-trivial = cases that are rejected or use a source")
    run.assumptions = ["'rejected' = PipelineConfigurationError or ValueError from parse or expand; which stage fires is not compared",
                       "promptness / no materialisation is a measurement: wall < 2 s and tracemalloc peak < 64 MB under RLIMIT_AS 3 GB",
                       "zero blocks with max_runs = 0 is left unspecified"]
    for cfg in ("RunSpace.src1.check", "RunSpace.ctx2.check", "RunSpace.src2.check", "RunSpace.three.check"):
        res = tlc.run_tlc("MC_RunSpace", cfg, coverage=True, timeout=1800)
        run.add_tlc(res)
        run.require_tlc_ok(res, cfg)
    run.require_actions(["AddBlock", "PlanBlock", "Combine", "CapCheck", "Materialise"])
    seed = core.seed()
    huge_checks(run)
    cli_dry_run_sample(run)
    _replay(run, "RunSpace.ctx2.emit")
    _replay(run, "RunSpace.src2.emit")      # two blocks over one shared source file
    _replay(run, "RunSpace.three.emit")     # three blocks: duplicates between neighbours and between non-neighbours
    if tier == "quick":
        _replay(run, "RunSpace.sim.emit", simulate="num=4000", depth=12, seed=seed + 8)
        _replay(run, "RunSpace.src1.emit")
    else:
        _replay(run, "RunSpace.src1.emit")
        _replay(run, "RunSpace.sim.emit", simulate="num=150000", depth=12, seed=seed + 8, timeout=3000)
    bo = run.extra.get("cases_by_outcome", {})
    need = {"runs", "max_runs", "select_missing", "rename_collision", "dup_within", "length_mismatch", "dup_across", "combine_size_mismatch"}
    if not need <= set(bo):
        raise core.MachineryError(f"vacuity: outcomes never exercised: {sorted(need - set(bo))}")
    run.nontrivial = sum(v for k, v in bo.items() if k != "runs") + run.extra.get("with_source", 0)
    run.exhaustive = True
    return run.finish()
