def validate(run, tier):
    return
