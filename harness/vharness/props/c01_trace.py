"""impl -> spec half of C01: seeded random programs beyond the TLC bounds are executed by the
real Pipeline, recorded at the orchestrator seam and batch-validated by TLC against
PipelineTrace.tla (every event must be explained by the spec action with the logged state)."""
from __future__ import annotations

import ast
import json
import os
import random
import re
import uuid
from typing import Any, Dict, List, Optional

from .. import core, tlc
from ..gamma import TEMPLATE_PREFIX, g_ctx, g_data, g_prog, prog_key
from ..pool import pmap

KEYS = ["value", "factor", "addend", "a", "b", "w", "t_values", "a.b", "a_b", "fit.parameters"]
FREE = ["value", "factor", "addend", "a", "b", "w"]
BOUND = 40000

ABSENT = {"t": "absent", "v": 0, "items": [], "bt": "", "d": 0}


def num(n):
    return {"t": "n", "v": int(n), "items": [], "bt": "", "d": 0}


def lst(xs):
    return {"t": "l", "v": 0, "items": [int(x) for x in xs], "bt": "", "d": 0}


class Unabstractable(Exception):
    pass


def _int(x) -> int:
    if isinstance(x, bool) or not isinstance(x, (int, float)) or float(x) != int(x) or abs(x) > BOUND:
        raise Unabstractable(repr(x))
    return int(x)


def alpha_val(v: Any) -> Dict[str, Any]:
    if v is None:
        return {"t": "null", "v": 0, "items": [], "bt": "", "d": 0}
    if isinstance(v, (int, float)) and not isinstance(v, bool):
        return num(_int(v))
    if isinstance(v, list):
        return lst([_int(x) for x in v])
    if isinstance(v, str) and v.startswith(TEMPLATE_PREFIX):
        d = 0
        while v.startswith(TEMPLATE_PREFIX):
            v = v[len(TEMPLATE_PREFIX):]
            d += 1
        try:
            base = ast.literal_eval(v)
        except Exception as exc:
            raise Unabstractable(v) from exc
        b = alpha_val(base)
        if b["t"] == "null":
            return {"t": "s", "v": 0, "items": [], "bt": "null", "d": d}
        return {"t": "s", "v": b["v"], "items": b["items"], "bt": b["t"], "d": d}
    raise Unabstractable(repr(v))


def alpha_ctx(c: Dict[str, Any]) -> Dict[str, Any]:
    if any(k not in KEYS for k in c):
        raise Unabstractable(f"key outside alphabet: {sorted(c)}")
    return {k: (alpha_val(c[k]) if k in c else dict(ABSENT)) for k in KEYS}


def alpha_data(d) -> Dict[str, Any]:
    if d[0] == "none":
        return {"ty": "none", "v": 0, "items": []}
    if d[0] == "float":
        return {"ty": "float", "v": _int(d[1]), "items": []}
    if d[0] == "coll":
        return {"ty": "coll", "v": 0, "items": [_int(x) for x in d[1]]}
    raise Unabstractable(repr(d))


def node(kind, cfg=None, k1="", k2="", sw=()):
    return {"kind": kind, "cfg": dict(cfg or {}), "k1": k1, "k2": k2, "sw": list(sw)}


def gen_program(rng: random.Random, maxlen: int = 8) -> Dict[str, Any]:
    """Type-directed random program over the whole library with parameter values outside the
    TLC value set; ~15% of the choices ignore the current data type (to hit the type gate)."""
    n = rng.randint(1, maxlen)
    ty = rng.choice(["none", "none", "float", "coll"])
    idata = {"none": {"ty": "none", "v": 0, "items": []},
             "float": {"ty": "float", "v": rng.randint(-6, 6), "items": []},
             "coll": {"ty": "coll", "v": 0, "items": [rng.randint(-4, 4) for _ in range(rng.randint(0, 3))]}}[ty]
    ictx = {}
    for k in FREE:
        r = rng.random()
        if r < 0.04:
            ictx[k] = {"t": "null", "v": 0, "items": [], "bt": "", "d": 0}
        elif r < 0.35:
            ictx[k] = num(rng.randint(-5, 9))
        elif r < 0.42:
            ictx[k] = lst([rng.randint(1, 4) for _ in range(rng.randint(1, 3))])
        else:
            ictx[k] = dict(ABSENT)
    ictx["t_values"] = dict(ABSENT)
    ictx["a.b"] = dict(ABSENT)
    ictx["a_b"] = dict(ABSENT)
    ictx["fit.parameters"] = dict(ABSENT)
    prog = []
    for _ in range(n):
        t = ty if rng.random() > 0.15 else rng.choice(["none", "float", "coll"])
        if rng.random() < 0.22:
            kind = rng.choice(["Rename", "Delete", "Template"])
            k1, k2 = rng.choice(FREE + ["a.b", "a_b"]), rng.choice(FREE + ["a.b", "a_b"])
            if kind == "Template" and "." in k1:
                k1 = "a_b"          # "{a.b}" would be attribute access in a format string
            prog.append(node(kind, k1=k1, k2=k2 if kind != "Delete" else ""))
            continue
        if t == "none":
            kind = rng.choice(["Src", "Src", "SrcDef", "Src0", "SweepSrc", "SweepSrcCtx"])
        elif t == "float":
            kind = rng.choice(["Mul", "Mul", "MulDef", "Add", "Sq", "Probe", "Probe", "Sink", "CtxW",
                               "SweepMul", "CtxWBad", "Boom"] if rng.random() < 0.2 else
                              ["Mul", "MulDef", "Add", "Sq", "Probe", "Sink", "CtxW", "SweepMul", "CtxWP", "SweepCtxW"])
        else:
            kind = rng.choice(["SliceMul", "SliceMulDef", "SliceProbe", "SliceProbe", "Sum", "SliceCtxW"])
        cfg = {}
        pname = {"Src": "value", "SrcDef": "value", "Mul": "factor", "MulDef": "factor",
                 "SliceMul": "factor", "SliceMulDef": "factor", "Add": "addend", "CtxWP": "factor", "SliceCtxW": "factor"}.get(kind)
        if pname and rng.random() < 0.45:
            cfg[pname] = rng.randint(-3, 6)
        if rng.random() < 0.03 and kind not in ("SweepSrc", "SweepMul", "SweepSrcCtx", "SweepCtxW"):
            cfg["bogus"] = 1
        k1 = ""
        if kind in ("Probe", "SliceProbe"):
            k1 = rng.choice(FREE) if rng.random() > 0.03 else ""
        if kind == "SweepSrcCtx":
            k1 = rng.choice(FREE)
        sw = [rng.randint(1, 4) for _ in range(rng.randint(1, 3))] if kind in ("SweepSrc", "SweepMul", "SweepCtxW") else []
        prog.append(node(kind, cfg, k1, "", sw))
        ty = {"Src": "float", "SrcDef": "float", "Src0": "float", "SweepSrc": "coll", "SweepSrcCtx": "coll",
              "SweepMul": "coll", "SweepCtxW": "coll", "SliceCtxW": "coll", "Sum": "float", "SliceMul": "coll", "SliceMulDef": "coll"}.get(kind, ty if kind in ("Probe", "Sink", "SliceProbe") else "float" if kind in ("Mul", "MulDef", "Add", "Sq", "CtxW", "CtxWP", "CtxWBad", "Boom") else ty)
    return {"prog": prog, "ictx": ictx, "idata": idata}


def record_chunk(cases: List[Dict[str, Any]]):
    from ..seams import run_nodes

    out = []
    for case in cases:
        obs = run_nodes(g_prog(case["prog"]), g_data(case["idata"]), g_ctx(case["ictx"]))
        if obs["construct_error"]:
            out.append(("rejected", case, obs["construct_error"]))
            continue
        try:
            events: List[Dict[str, Any]] = []
            if obs["started"] >= 1:
                events.append({"ev": "built"})
            n_ok = len(obs["oks"])
            for i, (d, c) in enumerate(obs["oks"]):
                last = (i == n_ok - 1) and obs["raised"] is None
                events.append({"ev": "ok", "data": alpha_data(d), "ctx": alpha_ctx(c), "last": last})
            if obs["raised"] is not None:
                events.append({"ev": "buildfail"} if obs["started"] == 0 else {"ev": "fail", "at": obs["started"]})
            out.append(("trace", {"prog": case["prog"], "ictx": case["ictx"], "idata": case["idata"],
                                   "events": events}, obs["raised"]))
        except Unabstractable as exc:
            out.append(("skipped", case, str(exc)))
    return out


def run_batch(traces: List[Dict[str, Any]], cfg: str = "PipelineTrace") -> tuple:
    """Validate a batch with one TLC run. Returns (TLCResult, set of rejected 1-based ids)."""
    tlc.WORK.mkdir(parents=True, exist_ok=True)
    path = tlc.WORK / f"traces-{uuid.uuid4().hex[:8]}.json"
    path.write_text(json.dumps(traces))
    try:
        res = tlc.run_tlc("PipelineTrace", cfg, workers=1, env={"TRACE_FILE": str(path)}, timeout=1800)
    finally:
        path.unlink(missing_ok=True)
    if res.violated:
        return res, None
    m = re.search(r'<<"ACCEPTED", (\d+), (\d+)>>', res.stdout)
    if not m and "MATCHED" not in res.stdout:
        raise core.MachineryError("trace validation produced no verdict:\n" + res.stdout[-2000:])
    rej = set()
    m2 = re.search(r'"REJECTED",\s*\{([^}]*)\}', res.stdout)
    if m2:
        rej = {int(x) for x in m2.group(1).split(",") if x.strip()}
    ma = re.search(r'"ACCEPTED",\s*(\d+),\s*(\d+)', res.stdout)
    if ma and int(ma.group(1)) + len(rej) != int(ma.group(2)):
        raise core.MachineryError(f"batch verdict inconsistent: accepted {ma.group(1)} + rejected {len(rej)} != {ma.group(2)}")
    return res, rej


def diagnose(trace: Dict[str, Any]) -> str:
    res, _ = run_batch([trace], cfg="PipelineTraceDiag")
    m = re.search(r'<<"MATCHED", (-?\d+)>>', res.stdout)
    k = int(m.group(1)) if m else -1
    ev = trace["events"]
    nxt = ev[k] if 0 <= k < len(ev) else None
    return f"spec explains the first {k} of {len(ev)} recorded events; next event not a spec behaviour: {json.dumps(nxt)[:400]}"


def validate(run: core.Run, tier: str) -> None:
    n = 1500 if tier == "quick" else 25000
    rng = random.Random(core.seed() * 7919 + 17)
    cases = [gen_program(rng) for _ in range(n)]
    traces, skipped, rejected = [], 0, 0
    for chunk in pmap(record_chunk, cases, chunk=250):
        for kind, payload, info in chunk:
            if kind == "trace":
                traces.append(payload)
            elif kind == "skipped":
                skipped += 1
            else:
                rejected += 1
    if len(traces) < n // 3:
        raise core.MachineryError(f"too few abstractable traces: {len(traces)} of {n}")
    deep = sum(1 for t in traces if sum(1 for e in t["events"] if e["ev"] == "ok") >= 3)
    total_rej = []
    for i in range(0, len(traces), 3000):
        batch = traces[i:i + 3000]
        res, rej = run_batch(batch)
        run.add_tlc(res)
        if rej is None:
            # an invariant / action property of the spec failed on a state bound to observed values
            run.violation("trace-invariant:" + str(res.violated),
                          f"{res.violated} violated on a recorded execution:\n{res.error_trace[:1500]}",
                          {"traces_batch_start": i})
            continue
        total_rej += [batch[j - 1] for j in sorted(rej)]
    for t in total_rej[:10]:
        why = diagnose(t)
        run.violation("trace:" + prog_key(t["prog"]) + f" ;; ctx={sorted(k for k, v in t['ictx'].items() if v['t'] != 'absent')} data={t['idata']['ty']}",
                      "recorded execution is not a behaviour of Pipeline.tla: " + why, {"trace": t})
    run.traces_validated += len(traces) - len(total_rej)
    run.evaluations += len(traces)
    run.nontrivial += deep
    run.extra["impl_to_spec"] = {"generated": n, "validated": len(traces), "rejected_by_spec": len(total_rej),
                                 "skipped_unabstractable": skipped, "loader_rejected": rejected,
                                 "with_3plus_completed_nodes": deep}
    if traces:
        run.sample({"impl_trace": traces[0]})
