"""C04 -- configuration identities are pure functions of configuration meaning.

TLC: Identity.tla checks CosmeticKeepsMeaning for every cosmetic rewrite (mapping key order at
depth 1 and 2, scalar spellings, quoting, flow/block layout and key position, +/* operand order in
sweep expressions) and History.tla states that an observation is a function of the operation's
arguments, whatever ran before.  Every cosmetic edge is emitted and both texts are identified by
the code: the WHOLE inspection payload must be equal.  The same payload is recomputed in fresh
processes under different PYTHONHASHSEED / working directory / TZ, after the worker's other
history, through Pipeline construction and through a traced run (pipeline_start.meta and
pipeline_spec_canonical vs `inspect`)."""
from __future__ import annotations

import json
import os
import subprocess
import sys
import tempfile
from pathlib import Path
from typing import Any, Dict, List

import yaml

from .. import core, tlc
from ..identity_common import identities, render, summary
from ..pool import pmap
from .c05 import edges

HARNESS_DIR = str(Path(__file__).resolve().parents[2])


def first_diff(a, b, path="") -> str:
    if isinstance(a, dict) and isinstance(b, dict):
        for k in sorted(set(a) | set(b)):
            if a.get(k) != b.get(k):
                return first_diff(a.get(k), b.get(k), f"{path}.{k}")
    if isinstance(a, list) and isinstance(b, list) and len(a) == len(b):
        for i, (x, y) in enumerate(zip(a, b)):
            if x != y:
                return first_diff(x, y, f"{path}[{i}]")
    return f"{path}: {str(a)[:100]!r} vs {str(b)[:100]!r}"


def trace_start_ids(text: str) -> Dict[str, Any]:
    """Run the configuration traced and return the identities attached to pipeline_start."""
    from semantiva.context_processors import ContextType
    from semantiva.data_types import NoDataType
    from semantiva.pipeline import Payload, Pipeline
    from ..traced import make_driver, read_records
    import shutil

    nodes = yaml.safe_load(text)["pipeline"]["nodes"]
    tmp = Path(tempfile.mkdtemp(prefix="vid-"))
    try:
        drv = make_driver(str(tmp / "t.jsonl"), "hash")
        p = Pipeline(nodes, trace=drv)
        res = None
        try:
            res = p.process(Payload(NoDataType(), ContextType({"factor": 2.0, "value": 1.0})))
        except Exception:
            pass
        # HISTORY: the caller post-processes what the run handed back (in place), then the SAME Pipeline object runs again:
        # the identities attached to the second pipeline_start are those of the configuration, not of what happened in between
        if res is not None:
            for v_ in list(res.context.to_dict().values()):
                if isinstance(v_, list) and v_:
                    v_.pop()
                    v_.append(-12345.0)
            try:
                p.process(Payload(NoDataType(), ContextType({"factor": 2.0, "value": 1.0})))
            except Exception:
                pass
        recs = read_records(tmp / "t.jsonl") if (tmp / "t.jsonl").exists() else []
        starts = [r for r in recs if r["record_type"] == "pipeline_start"]
        st = starts[0] if starts else None
        if st is None:
            return {}
        ids_of = lambda r: (r["meta"].get("semantic_id"), r["meta"].get("config_id"), r["meta"].get("node_semantic_ids"), r.get("pipeline_id"),
                            [n["node_uuid"] for n in (r.get("pipeline_spec_canonical") or {}).get("nodes", [])])
        return {"second_run_differs": len(starts) > 1 and ids_of(starts[1]) != ids_of(starts[0]),
                "semantic_id": st["meta"].get("semantic_id"), "config_id": st["meta"].get("config_id"),
                "node_semantic_ids": st["meta"].get("node_semantic_ids"),
                "uuids": [n["node_uuid"] for n in (st.get("pipeline_spec_canonical") or {}).get("nodes", [])],
                "canonical_uuids_from_pipeline": [n["node_uuid"] for n in p.canonical_spec["nodes"]]}
    finally:
        shutil.rmtree(tmp, ignore_errors=True)


def check_chunk(es: List[Dict[str, Any]]):
    out = {"n": 0, "viol": [], "by_action": {}, "paths": 0}
    first = None
    for e in es:
        if not e["cosmetic"]:
            continue
        out["n"] += 1
        out["by_action"][e["action"]] = out["by_action"].get(e["action"], 0) + 1
        ta, tb = render(e["from"]), render(e["to"])
        pa, pb = identities(ta), identities(tb)
        if pa != pb:
            out["viol"].append((f"cosmetic-changes-identity:{e['action']}",
                                f"{e['action']}: inspection payload differs at {first_diff(pa, pb)}\n--- from\n{ta}--- to\n{tb}", {"edge": e}))
        if first is None:
            first = (ta, pa)
        if out["n"] % 7 == 1:
            # the three paths: inspection payload, Pipeline construction, trace pipeline_start
            out["paths"] += 1
            s, tr = summary(pb), trace_start_ids(tb)
            if tr:
                if tr.get("second_run_differs"):
                    out["viol"].append(("history:second-run-on-one-pipeline", f"the identities attached to pipeline_start differ between the first and the second run of one "
                                        f"Pipeline object (the caller edited the returned context lists in place in between)\n{tb}", {"edge": e}))
                if tr["semantic_id"] != s["semantic_id"] or tr["config_id"] != s["config_id"]:
                    out["viol"].append(("inspect-vs-trace:ids", f"inspect ids ({s['semantic_id'][:16]}, {s['config_id'][:16]}) != pipeline_start.meta ({str(tr['semantic_id'])[:16]}, {str(tr['config_id'])[:16]})\n{tb}", {"edge": e}))
                if tr["uuids"] != [u for u, _ in s["nodes"]] or tr["canonical_uuids_from_pipeline"] != tr["uuids"]:
                    out["viol"].append(("inspect-vs-trace:uuids", f"node uuids differ between inspect, Pipeline construction and pipeline_start\n{tb}", {"edge": e}))
                if tr["node_semantic_ids"] != {u: sid for u, sid in s["nodes"]}:
                    out["viol"].append(("inspect-vs-trace:node-semantic-ids", f"node semantic ids differ: inspect {s['nodes']} trace {tr['node_semantic_ids']}\n{tb}", {"edge": e}))
    if first is not None:
        ta, pa = first
        again = identities(ta)
        if again != pa:
            out["viol"].append(("history-dependent", f"same text identified twice in one process (other configurations in between) differs at {first_diff(pa, again)}\n{ta}", {}))
    return out


FRESH = r"""
import sys, json, logging
logging.disable(logging.CRITICAL)
sys.path.insert(0, sys.argv[2])
from vharness import seams; seams.setup()
from vharness.identity_common import identities
print(json.dumps(identities(open(sys.argv[1]).read()), sort_keys=True, default=str))
"""


def fresh_process_checks(run: core.Run, texts: List[str], n_env: int) -> None:
    envs = [{"PYTHONHASHSEED": "0", "TZ": "UTC0"}, {"PYTHONHASHSEED": "1", "TZ": "JST-9"}, {"PYTHONHASHSEED": "random", "TZ": "PST8"},
            {"PYTHONHASHSEED": "4242", "TZ": "<+0545>-5:45"}][:n_env]
    tmp = Path(tempfile.mkdtemp(prefix="vfresh-"))
    try:
        import re
        for ti, text in enumerate(texts):
            (tmp / f"c{ti}.yaml").write_text(text)
            # history: first build near-miss configurations that MEAN something else (numbers spelled as
            # ints / bools instead of floats) in this interpreter, then identify the configuration itself
            near = re.sub(r"(?<![\w.])(\d+)\.0+(?![\w.])", r"\1", text)
            if near != text:
                identities(near)
                run.extra["near_miss_histories"] = run.extra.get("near_miss_histories", 0) + 1
            ref = json.loads(json.dumps(identities(text), sort_keys=True, default=str))
            # ... and the identities attached to pipeline_start when this very text runs are the ones inspect shows
            s_, tr_ = summary(identities(text)), trace_start_ids(text)
            if tr_ and (tr_["semantic_id"] != s_["semantic_id"] or tr_["config_id"] != s_["config_id"]
                        or tr_["node_semantic_ids"] != {u: sid for u, sid in s_["nodes"]}):
                run.violation("inspect-vs-trace:fresh-process-texts", f"inspect shows ({s_['semantic_id'][:16]}, {s_['config_id'][:16]}, {s_['nodes']}) but pipeline_start.meta "
                              f"carries ({str(tr_['semantic_id'])[:16]}, {str(tr_['config_id'])[:16]}, {tr_['node_semantic_ids']})\n{text}", {"text": text})
            for ei, env in enumerate(envs):
                cwd = tmp / f"cwd{ei}"
                cwd.mkdir(exist_ok=True)
                e = dict(os.environ)
                e.update(env)
                e.pop("PYTHONDONTWRITEBYTECODE", None)
                p = subprocess.run([sys.executable, "-c", FRESH, str(tmp / f"c{ti}.yaml"), HARNESS_DIR + "/harness" if False else str(Path(HARNESS_DIR) / "harness")],
                                   cwd=cwd, env=e, capture_output=True, text=True, timeout=120)
                run.evaluations += 1
                if p.returncode != 0 or not p.stdout.strip():
                    raise core.MachineryError(f"fresh process failed: {p.stderr[-400:]}")
                got = json.loads(p.stdout.strip().splitlines()[-1])
                if got != ref:
                    run.violation(f"fresh-process:{'hashseed' if ei else 'plain'}",
                                  f"inspection payload computed in a fresh process (env {env}, other cwd) differs at {first_diff(ref, got)}\n{text}", {"env": env})
    finally:
        import shutil
        shutil.rmtree(tmp, ignore_errors=True)


def replay_one(payload):
    from .. import seams
    seams.setup()
    r = check_chunk([payload["edge"]])
    for k, w, _ in r["viol"]:
        print(f"VIOLATION property=C04 replay=<given>\n  {k}\n  {w}")
    return 1 if r["viol"] else 0


def check(tier: str) -> int:
    from .. import seams
    seams.setup()
    run = core.Run("C04", tier)
    run.rule = ("edges = cosmetic rewrite steps of Identity.tla (key order depth 1/2, scalar spelling, quoting, flow/block + key "
                "position, +/* operand order) from 4 seeds and their one-step neighbours; whole inspection payload compared; every "
                "7th edge also through Pipeline construction and a traced run; seeds re-identified in fresh processes under "
                "PYTHONHASHSEED / TZ / cwd variations; non-trivial = cosmetic edges on sweep or nested-parameter nodes")
    run.assumptions = ["YAML anchors/aliases are not generated; wall-clock shift is represented by the TZ dimension only",
                       "History.tla's ObsIsFunctionOfArgs is exercised by re-identifying a configuration after the worker's other work"]
    depth = "d2" if tier == "quick" else "d3"
    for cfg in (f"Identity.{depth}.check",):
        res = tlc.run_tlc("MC_Identity", cfg, coverage=True, timeout=3000)
        run.add_tlc(res)
        run.require_tlc_ok(res, cfg)
    res = tlc.run_tlc("History", "History.check", coverage=True, timeout=900)
    run.add_tlc(res)
    run.require_tlc_ok(res, "History.check")
    es = edges(f"Identity.{depth}.emit")
    acts: Dict[str, int] = {}
    for r in pmap(check_chunk, es, chunk=120):
        run.evaluations += r["n"]
        run.extra["three_path_comparisons"] = run.extra.get("three_path_comparisons", 0) + r["paths"]
        for k, v in r["by_action"].items():
            acts[k] = acts.get(k, 0) + v
        for k, w, rep in r["viol"]:
            run.violation(k, w, rep)
    need = {"PermuteKeys", "PermuteSubKeys", "Respell", "Requote", "Reflow", "CommuteExpr", "PermuteVars", "Alias", "AliasSub", "CommuteInner", "EmptyParams", "CommuteUnder", "ExplicitDefault"}
    if not need <= set(acts):
        raise core.MachineryError(f"vacuity: cosmetic actions never exercised: {sorted(need - set(acts))}")
    run.extra["edges_by_action"] = acts
    seeds_txt = []
    seen = set()
    # configurations re-identified in fresh interpreters: sweep configurations first, and as DIFFERENT from one
    # another as the edge set allows (one per distinct (processor, expression, values, variable name) profile), so
    # that the in-process references are computed after near-miss neighbours of the same generated class
    def profile(c):
        return tuple((n["proc"], json.dumps(n["sweep"]["expr"]), tuple(n["sweep"]["vals"]), n["sweep"].get("vname"), n["sweep"]["mode"])
                     for n in c if n["sweep"]["on"]) or tuple(n["proc"] for n in c)
    for e in sorted(es, key=lambda e: (not any(n["sweep"]["on"] for n in e["from"]), e["action"])):
        pf = profile(e["from"])
        if pf not in seen and len(seeds_txt) < (7 if tier == "quick" else 16):
            seen.add(pf)
            seeds_txt.append(render(e["from"]))
    # ... and one configuration whose nodes are generated from string specifications (template / rename / delete)
    gen = next((e["from"] for e in es if any(n["proc"].startswith("template:") for n in e["from"])), None)
    if gen is None:
        raise core.MachineryError("vacuity: no configuration with string-specified context processors among the edges")
    seeds_txt.append(render(gen))
    # ... and one whose sweep values are what YAML yields for unquoted timestamps WITHOUT a UTC offset and for a date:
    # whatever identity such values get, it is the same under every host time zone
    seeds_txt.append("""extensions: [semantiva-examples, verif_ext]
pipeline:
  nodes:
    - processor: FloatValueDataSource
      derive:
        parameter_sweep:
          parameters: {value: "1.0 if t else 2.0"}
          variables: {t: {values: [2026-01-01 12:00:00, 2026-01-02 00:30:00, 2026-03-01]}}
          mode: combinatorial
          broadcast: false
          collection: FloatDataCollection
    - processor: FloatMultiplyOperation
      parameters: {factor: 2.0}
""")
    fresh_process_checks(run, seeds_txt, 2 if tier == "quick" else 4)
    run.traces_validated = run.evaluations
    run.nontrivial = acts.get("PermuteSubKeys", 0) + acts.get("CommuteExpr", 0) + acts.get("Respell", 0)
    run.sample({"edge": "Respell", "text": seeds_txt[0]})
    run.exhaustive = True
    return run.finish()
