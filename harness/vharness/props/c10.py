"""C10 -- tracing is purely observational and traces are reproducible.

TLC: the refinement PROPERTY Untraced of TraceStream.tla (the trace variables are history
variables: every traced behaviour projects onto a Pipeline.tla behaviour).  Replay: each emitted
behaviour is run untraced and traced (detail level by case hash) and must return / raise the same;
it is traced again with a fresh Pipeline, twice with one reused Pipeline object, and once more after
the worker has executed an arbitrary other history; all normalised traces must be equal.  A few targets
are also traced in a FRESH interpreter with and without a preceding history of cosmetic twins / near
misses of the same configuration (process-wide caches keyed by less than what they store)."""
from __future__ import annotations

import copy
import os
import zlib
from typing import Any, Dict, List

from .. import core, tlc
from ..gamma import g_ctx, g_data, g_prog, prog_key
from ..pool import pmap
from .c06 import DETAILS, tlc_checks

VOLATILE_TOP = {"run_id", "timestamp", "seq"}


def normalise(records: List[Dict[str, Any]]) -> List[Dict[str, Any]]:
    """Remove the documented volatile fields: run id, timestamps, durations, sequence numbers."""
    out = []
    for r in records:
        r = copy.deepcopy(r)
        for k in VOLATILE_TOP:
            r.pop(k, None)
        if isinstance(r.get("identity"), dict):
            r["identity"].pop("run_id", None)
        r.pop("timing", None)
        out.append(r)
    return out


def same_outcome(a, b) -> bool:
    if (a["raised"] is None) != (b["raised"] is None):
        return False
    if a["raised"] is None:
        return a["final"] == b["final"]
    return type(a["exc"]) is type(b["exc"]) and a["exc"].args == b["exc"].args and a["started"] == b["started"]


def first_diff(x, y, path="") -> str:
    if type(x) is not type(y):
        return f"{path}: {x!r} vs {y!r}"
    if isinstance(x, dict):
        for k in sorted(set(x) | set(y)):
            if x.get(k) != y.get(k):
                return first_diff(x.get(k), y.get(k), f"{path}.{k}")
    if isinstance(x, list):
        if len(x) != len(y):
            return f"{path}: length {len(x)} vs {len(y)}"
        for i, (a, b) in enumerate(zip(x, y)):
            if a != b:
                return first_diff(a, b, f"{path}[{i}]")
    return f"{path}: {str(x)[:120]!r} vs {str(y)[:120]!r}"


def replay_chunk(cases: List[Dict[str, Any]]):
    from semantiva.pipeline import Pipeline
    from ..seams import run_nodes
    from ..traced import make_driver, read_records, run_traced
    import tempfile, shutil
    from pathlib import Path

    out = {"n": 0, "viol": [], "fails": 0, "has_sweep": 0}
    first = None
    from ..seams import make_recording_orchestrator
    shared_orch = make_recording_orchestrator()      # ONE orchestrator object serving many different pipelines
    for ci, case in enumerate(cases):
        nodes = g_prog(case["prog"])
        h = zlib.crc32(repr(case["prog"]).encode() + repr(case["ictx"]).encode())
        detail = DETAILS[h % len(DETAILS)]
        mk = lambda: (g_data(case["idata"]), g_ctx(case["ictx"]))
        un = run_nodes(nodes, *mk())
        if un["construct_error"]:
            continue
        tr = run_traced(nodes, *mk(), detail=detail)
        out["n"] += 1
        out["fails"] += case["status"] == "fail"
        out["has_sweep"] += any(n["kind"].startswith("Sweep") for n in case["prog"])
        pk = prog_key(case["prog"])
        shape_key = f"{case['failClass'] or 'ok'}"
        if not same_outcome(un, tr):
            out["viol"].append((f"observational:{shape_key}:{pk}",
                                f"[{pk}] detail={detail}: untraced {'returned ' + str(un['final']) if un['raised'] is None else 'raised ' + un['raised']} "
                                f"but traced {'returned ' + str(tr['final']) if tr['raised'] is None else 'raised ' + tr['raised']}",
                                {"case": case, "nodes": nodes, "detail": detail}))
        # reproducibility: fresh pipeline again
        tr2 = run_traced(nodes, *mk(), detail=detail)
        n1, n2 = normalise(tr["records"]), normalise(tr2["records"])
        if n1 != n2:
            out["viol"].append((f"reproducible:fresh:{'sweep' if any(n['kind'].startswith('Sweep') for n in case['prog']) else 'plain'}",
                                f"[{pk}] two traced runs (fresh Pipeline objects) differ after normalisation at {first_diff(n1, n2)}",
                                {"case": case, "nodes": nodes, "detail": detail}))
        # the caller edits its configuration structure in place after the Pipeline was built from it
        if ci % 4 == 1 or any(n["kind"].startswith("Sweep") for n in case["prog"]):
            tr4 = run_traced(nodes, *mk(), detail=detail, scramble=True)
            n4 = normalise(tr4["records"])
            if n4 != n1 or not same_outcome(tr4, un):
                out["viol"].append((f"aliasing:config-edited-after-build:{'sweep' if any(n['kind'].startswith('Sweep') for n in case['prog']) else 'plain'}",
                                    f"[{pk}] the configuration dicts were edited in place after Pipeline(...) was built from them: run / trace differ at "
                                    f"{first_diff(n1, n4) if n4 != n1 else 'the returned value or exception'}",
                                    {"case": case, "nodes": nodes, "detail": detail}))
        # the same configuration through an orchestrator object that has already run other pipelines
        if ci % 2 == 0 or any(n["kind"].startswith("Sweep") for n in case["prog"]):
            tr3 = run_traced(nodes, *mk(), detail=detail, orchestrator=shared_orch)
            n3 = normalise(tr3["records"])
            if n3 != n1 or not same_outcome(tr3, un):
                out["viol"].append((f"reproducible:shared-orchestrator:{'sweep' if any(n['kind'].startswith('Sweep') for n in case['prog']) else 'plain'}",
                                    f"[{pk}] traced through an orchestrator that ran other pipelines before: differs at {first_diff(n1, n3)}",
                                    {"case": case, "nodes": nodes, "detail": detail}))
        # one reused Pipeline object, two runs into two files
        if ci % 3 == 0:
            tmp = Path(tempfile.mkdtemp(prefix="vtrace-"))
            try:
                drv = make_driver(str(tmp / "d"), detail)
                p = Pipeline(copy.deepcopy(nodes), trace=drv)
                own_orch = make_recording_orchestrator()     # a Pipeline keeps ONE orchestrator across its runs
                a = run_nodes(nodes, *mk(), pipeline=p, orchestrator=own_orch)
                files_a = set((tmp / "d").rglob("*.jsonl")) if (tmp / "d").exists() else set()
                # what the first run handed back belongs to the caller: it post-processes the returned context in place
                # (pops from a published list, rescales it); the next run of the Pipeline must not see any of that
                if a.get("result") is not None and ci % 2 == 0:
                    try:
                        for k_, v_ in list(a["result"].context.to_dict().items()):
                            if isinstance(v_, list) and v_:
                                v_.pop()
                                v_.append(-12345.0)
                                v_.reverse()
                    except Exception:
                        pass
                b = run_nodes(nodes, *mk(), pipeline=p, orchestrator=own_orch)
                files_b = set((tmp / "d").rglob("*.jsonl")) - files_a if (tmp / "d").exists() else set()
                ra = [r for f in sorted(files_a) for r in read_records(f)]
                rb = [r for f in sorted(files_b) for r in read_records(f)]
                if normalise(ra) != normalise(rb):
                    out["viol"].append((f"reproducible:reused-pipeline:{'sweep' if any(n['kind'].startswith('Sweep') for n in case['prog']) else 'plain'}",
                                        f"[{pk}] second run of one Pipeline object differs from its first at {first_diff(normalise(ra), normalise(rb))}",
                                        {"case": case, "nodes": nodes, "detail": detail}))
                if not same_outcome(a, b) or not same_outcome(a, un):
                    out["viol"].append((f"observational:reused:{pk}", f"[{pk}] reused Pipeline object returns/raises differently on its second run", {"case": case}))
            finally:
                shutil.rmtree(tmp, ignore_errors=True)
        if first is None and case["status"] == "done":
            first = (case, nodes, detail, n1)
    # after an arbitrary other history: re-run the first completed case of the chunk
    if first is not None:
        case, nodes, detail, n1 = first
        again = run_traced(nodes, g_data(case["idata"]), g_ctx(case["ictx"]), detail=detail)
        if normalise(again["records"]) != n1:
            out["viol"].append(("reproducible:after-history",
                                f"[{prog_key(case['prog'])}] trace after {out['n']} other executions differs at {first_diff(n1, normalise(again['records']))}",
                                {"case": case, "nodes": nodes, "detail": detail}))
    return out


def hostile_payloads() -> List[tuple]:
    """Payload values whose user-visible hooks misbehave: a summary must tolerate them and tracing
    must not consume or alter them."""
    from .. import seams
    seams.setup()
    import verif_ext
    from ..seams import run_nodes
    from ..traced import run_traced

    viol = []
    nodes_list = [[{"processor": "FloatDataSink"}], [{"processor": "FloatCollectValueProbe", "context_key": "a"}],
                  [{"processor": "FloatMultiplyOperation", "parameters": {"factor": 2.0}}],
                  [{"processor": 'template:"{mixed}-{tup}-{sur}":label'}],
                  [{"processor": 'template:"{nan}/{inf}":label'}, {"processor": "FloatMultiplyOperation", "parameters": {"factor": float("inf")}}],
                  [{"processor": "FloatCollectValueProbe", "context_key": "a"}, {"processor": "VBoomOperation"}],       # reads the awkward values as parameters
                  [{"processor": "VHandleProbe", "context_key": "spool"}, {"processor": "VHandleProbe", "context_key": "spool"}]]     # a node CREATES, then REPLACES, a context value that cannot be described
    # failures whose exception has NO argument / an empty message / non-text arguments: the traced run raises the very same thing
    for kind in ("KeyError", "IndexError", "AssertionError", "StopIteration", "KeyErrorTuple", "OSError", "EmptyText", "UnicodeError"):
        nodes_list.append([{"processor": "FloatCollectValueProbe", "context_key": "a"}, {"processor": "VRaise", "parameters": {"kind": kind}}])
    # sweeps over values that are not JSON types: what YAML itself yields for an unquoted date / timestamp / !!binary,
    # and what the Python API allows (tuples, complex numbers, sets)
    import datetime as _dt
    import decimal as _dec
    for vals in ([_dt.date(2026, 1, 1), _dt.date(2026, 1, 2)], [_dt.datetime(2026, 1, 1, 12, 0)], [b"\x00\xff", b"a"], [(1, 2), (3, 4)],
                 [1j, 2.0], [frozenset({1})], [_dec.Decimal("1.5")], [1.0, float("inf"), float("nan")], [float("-inf")]):
        nodes_list.append([{"processor": "FloatMultiplyOperation",
                            "derive": {"parameter_sweep": {"parameters": {"factor": "2.0 if d else 3.0"}, "variables": {"d": {"values": vals}},
                                                           "collection": "FloatDataCollection"}}}])
    nodes_list.append([{"processor": "VPairProbe", "context_key": "res",
                        "derive": {"parameter_sweep": {"parameters": {"a": "1.0 if d else 0.0"}, "variables": {"d": {"values": [_dt.date(2026, 1, 1)]}}}}}])
    for nodes in nodes_list:
        for detail in ["hash", "repr", "context", "all"]:
            def payload():
                return verif_ext.VWeirdFloat(3.0), {"g": (i for i in range(3)), "e": verif_ext.VBadEq(), "k": 1.0,
                                                    "mixed": {1: "a", "b": 2}, "tup": {(1, 2): "t"},
                                                    "sur": "scan_\udcff.dat", "uni": "caf\u00e9_\u6e2c\u5b9a",
                                                    "arr": __import__("numpy").arange(4.0), "arrs": [__import__("numpy").array([1, 2])],
                                                    "nan": float("nan"), "inf": float("inf")}     # lone surrogate (os.fsdecode of a non-UTF-8 name), non-ASCII text
            # plain Pipeline objects here: the recording orchestrator deep-copies contexts, which these values refuse
            def plain_run(d, c, drv=None):
                import copy as _copy
                from semantiva.context_processors import ContextType
                from semantiva.pipeline import Payload, Pipeline
                from ..gamma import a_data
                o = {"raised": None, "final": None}
                try:
                    res = Pipeline(_copy.deepcopy(nodes), trace=drv).process(Payload(d, ContextType(c)))
                    o["final"] = (a_data(res.data), {k: (repr(v) if isinstance(v, (int, float, str)) else type(v).__name__)   # repr: nan == nan here
                                                     for k, v in res.context.to_dict().items()})
                except Exception as exc:
                    o["raised"] = f"{type(exc).__name__}: {str(exc)[:160]} args={exc.args!r}"[:300]
                return o
            import shutil as _sh
            import tempfile as _tf
            from ..traced import make_driver
            d1, c1 = payload()
            un = plain_run(d1, c1)
            d2, c2 = payload()
            tdir = _tf.mkdtemp(prefix="vhostile-")
            try:
                tr = plain_run(d2, c2, make_driver(tdir + "/t.ser.jsonl", detail))
            finally:
                _sh.rmtree(tdir, ignore_errors=True)
            ok = un["raised"] == tr["raised"]
            if ok and un["raised"] is None:
                ok = un["final"] == tr["final"]
            gen_left = list(c2["g"])
            if not ok or gen_left != [0, 1, 2]:
                viol.append((f"observational:hostile-payload:{detail}",
                             f"{nodes} with misbehaving payload hooks: untraced {un['raised'] or un['final']} vs traced(detail={detail}) {tr['raised'] or tr['final']}; generator left {gen_left}",
                             {"nodes": nodes, "detail": detail}))
    return viol


LOCALE_CHILD = r"""
import json, logging, sys, tempfile
logging.disable(logging.CRITICAL)
sys.path.insert(0, sys.argv[1])
from vharness import seams; seams.setup()
from vharness.seams import run_nodes
from vharness.traced import run_traced
nodes = [{"processor": "FloatValueDataSource", "parameters": {"value": 2.0}}, {"processor": 'template:"größe={size}":label'},
         {"processor": "FloatCollectValueProbe", "context_key": "測定"}]
out = []
for detail in ("hash", "repr", "context", "all"):
    un = run_nodes(nodes, None, {"size": 1.5, "café": "é…"})
    tr = run_traced(nodes, None, {"size": 1.5, "café": "é…"}, detail=detail)
    out.append({"detail": detail, "un": un["raised"], "tr": tr["raised"], "same": un["final"] == tr["final"], "records": len(tr["records"]),
                "read_error": tr.get("read_error")})
import locale
print("LOCALE-RESULT " + json.dumps({"encoding": locale.getpreferredencoding(False), "runs": out}))
"""


def staged_metadata_check(run) -> None:
    """HISTORY on one orchestrator: run metadata STAGED with configure_run_metadata() before a run that also brings its own
    (Pipeline.set_run_metadata), then a traced run that brings none: its pipeline_start is that of a run without metadata."""
    from semantiva.context_processors import ContextType
    from semantiva.data_types import NoDataType
    from semantiva.pipeline import Payload, Pipeline
    from .. import seams
    from ..traced import make_driver, read_records
    import shutil as _sh
    import tempfile as _tf

    seams.setup()
    nodes = [{"processor": "FloatValueDataSource", "parameters": {"value": 2.0}}, {"processor": "FloatMultiplyOperation", "parameters": {"factor": 3.0}}]

    def third_start(with_history: bool):
        tmp = _tf.mkdtemp(prefix="vstaged-")
        try:
            p = Pipeline([dict(n) for n in nodes], trace=make_driver(tmp + "/d", "hash"))
            if with_history:
                p.orchestrator.configure_run_metadata({"run_space_index": 7, "run_space_context": {"note": "staged"}})
                p.set_run_metadata({"run_space_index": 1, "run_space_context": {"note": "explicit"}})
                p.process(Payload(NoDataType(), ContextType({})))
            else:
                p.process(Payload(NoDataType(), ContextType({})))
            p.process(Payload(NoDataType(), ContextType({})))
            from pathlib import Path as _P
            recs = [r for f in sorted(_P(tmp + "/d").rglob("*.jsonl"), key=lambda f: f.stat().st_mtime_ns) for r in read_records(f)]
            starts = [r for r in recs if r["record_type"] == "pipeline_start"]
            last = max(starts, key=lambda r: r.get("seq", 0))
            return {k: v for k, v in last.items() if k.startswith("run_space")}
        finally:
            _sh.rmtree(tmp, ignore_errors=True)
    run.evaluations += 2
    plain, after = third_start(False), third_start(True)
    if plain != after:
        run.violation("reproducible:staged-run-metadata", f"a traced run without run metadata carries {after} in its pipeline_start after an earlier run on the same "
                      f"orchestrator had metadata both staged (configure_run_metadata) and given explicitly; without that history it carries {plain}", {"staged": True})


def locale_check(run) -> None:
    """ENVIRONMENT: tracing is observational whatever the locale: in an interpreter whose preferred encoding is not UTF-8
    (LC_ALL=C, UTF-8 mode and locale coercion off) a pipeline whose context keys / values / rendered strings are not ASCII
    returns the same traced and untraced, and the trace can be read back."""
    import json as _json
    import os as _os
    import subprocess
    import sys
    from pathlib import Path
    hdir = str(Path(__file__).resolve().parents[2])
    env = dict(_os.environ, LC_ALL="C", LANG="C", PYTHONUTF8="0", PYTHONCOERCECLOCALE="0", PYTHONIOENCODING="utf-8")
    import tempfile as _tf
    with _tf.TemporaryDirectory(prefix="vlocale-") as td:      # (a script FILE: source files are UTF-8 whatever the locale)
        script = Path(td) / "child.py"
        script.write_text(LOCALE_CHILD, encoding="utf-8")
        p = subprocess.run([sys.executable, str(script), hdir], capture_output=True, text=True, timeout=300, env=env, encoding="utf-8", errors="replace")
    line = next((l for l in p.stdout.splitlines() if l.startswith("LOCALE-RESULT ")), None)
    if line is None:
        raise core.MachineryError(f"locale child produced no result: {p.stderr[-500:]}")
    res = _json.loads(line[len("LOCALE-RESULT "):])
    run.extra["non_utf8_locale"] = {"preferred_encoding": res["encoding"], "runs": len(res["runs"])}
    if any(r["un"] is not None for r in res["runs"]):
        raise core.MachineryError(f"vacuity: the locale probe pipeline does not run untraced: {res['runs'][0]['un']}")
    for r in res["runs"]:
        run.evaluations += 1
        if r["un"] != r["tr"] or not r["same"] or r["read_error"] or (r["tr"] is None and r["records"] < 5):
            run.violation(f"environment:locale:{r['detail']}", f"preferred encoding {res['encoding']}, detail={r['detail']}: untraced "
                          f"{'raised ' + str(r['un']) if r['un'] else 'returned'}, traced {'raised ' + str(r['tr']) if r['tr'] else 'returned'}"
                          f" (same result: {r['same']}, records read back: {r['records']}, read error: {r['read_error']})", {"locale": True})


# ---- history in a FRESH interpreter: trace(B | nothing ran before) = trace(B | A1, A2, ... ran before) ----------
_T = {"t": "absent", "v": 0, "items": [], "bt": "", "d": 0}
_CTX = {"a": {**_T, "t": "n", "v": 3}, "factor": {**_T, "t": "n", "v": 2}, "a_list": {**_T, "t": "l", "items": [1, 2]}, "addend": _T, "value": _T, "b": _T, "w": _T}
_NODATA = {"ty": "none", "v": 0, "items": []}


def _sweep(proc: str, param: str, expr: str, values, extra=None):
    n = {"processor": proc, "derive": {"parameter_sweep": {"parameters": {param: expr}, "variables": {"t": {"values": values}},
                                                            "collection": "FloatDataCollection"}}}
    if extra:
        n.update(extra)
        if "context_key" in extra:      # probe sweeps declare no collection
            del n["derive"]["parameter_sweep"]["collection"]
    return n


def history_jobs() -> List[Dict[str, Any]]:
    """(target B, histories): cosmetic twins of B (same meaning, other spelling of the sweep expression),
    near misses (other values / other parameter), and an unrelated program."""
    src = lambda e, vals=(1.0, 2.0): _sweep("FloatValueDataSource", "value", e, list(vals))
    mul = lambda e, vals=(2.0, 3.0): _sweep("FloatMultiplyOperation", "factor", e, list(vals))
    prb = lambda e: _sweep("VScaleProbe", "factor", e, [1.0, 2.0], {"context_key": "a"})
    plain = [{"processor": "FloatValueDataSource", "parameters": {"value": 2.0}},
             {"processor": "FloatMultiplyOperation", "parameters": {"factor": 3.0}},
             {"processor": 'template:"x={a}":w'}]
    plain2 = [{"processor": "FloatValueDataSource", "parameters": {"value": 5.0}},
              {"processor": "FloatMultiplyOperation"}, {"processor": 'template:"y={a}":w'}]
    jobs = []

    def job(name, target, histories):
        jobs.append({"name": name, "target": [target, _NODATA, _CTX],
                     "history": [[h, _NODATA, _CTX] for h in histories]})
    job("sweep-src:cosmetic-twin", [src("t*2")], [[src("2 * t")], [src("(2*t)")]])
    job("sweep-src:near-miss", [src("2 * t")], [[src("2 * t", (1.0, 3.0))], [src("3 * t")], [src("2 * t", (1, 2))]])
    job("sweep-op:cosmetic-twin", [src("t"), mul("1 + t")], [[src("t"), mul("t+1")], [src("(t)"), mul("t + 1")]])
    job("sweep-probe:cosmetic-twin", [{"processor": "FloatValueDataSource", "parameters": {"value": 2.0}}, prb("t * 3")],
        [[{"processor": "FloatValueDataSource", "parameters": {"value": 2.0}}, prb("3*t")]])
    # same generated class name, different inputs: a sweep of one element over literal values / over a context
    # sequence; two templates writing one key from different placeholders; dotted vs underscored rename keys
    ctxsweep = lambda e: {"processor": "FloatValueDataSource", "derive": {"parameter_sweep": {
        "parameters": {"value": e}, "variables": {"t": {"from_context": "a_list"}}, "collection": "FloatDataCollection"}}}
    job("sweep-src:values-after-from-context", [src("2 * t")], [[ctxsweep("2 * t")]])
    job("sweep-src:from-context-after-values", [ctxsweep("2 * t")], [[src("2 * t")]])
    job("template:same-output-key", [plain[0], {"processor": 'template:"x={a}":w'}],
        [[plain[0], {"processor": 'template:"y={factor}-{a}":w'}]])
    job("rename:sanitised-name-collision", [plain[0], {"processor": "rename:a:b_c"}], [[plain[0], {"processor": "rename:factor:b.c"}]])
    job("plain:near-miss", plain, [plain2, [src("2 * t")]])
    job("plain:after-sweeps", plain2, [[src("t"), mul("t")], plain])
    return jobs


def history_pair(jobs: List[Dict[str, Any]]):
    import json
    import subprocess
    import sys

    out = []
    for job in jobs:
        res = []
        for hist in ([], job["history"]):
            for detail in job["details"]:
                p = subprocess.run([sys.executable, "-m", "vharness.history_child"],
                                   input=json.dumps({"history": hist, "target": job["target"], "detail": detail}),
                                   capture_output=True, text=True, timeout=600, env=dict(os.environ, PYTHONDONTWRITEBYTECODE="1"))
                if p.returncode != 0:
                    return [("__machinery__", p.stderr[-600:], {})]
                res.append(json.loads(p.stdout))
        k = len(job["details"])
        for i, detail in enumerate(job["details"]):
            fresh, after = res[i], res[k + i]
            if not fresh["records"]:
                return [("__machinery__", f"{job['name']}: fresh run produced no trace records", {})]
            if fresh != after:
                out.append((f"reproducible:fresh-process-history:{job['name']}",
                            f"{job['name']} detail={detail}: the trace of {job['target'][0]} in a fresh interpreter differs from its trace after "
                            f"{[h[0] for h in job['history']]} ran in the same interpreter, at {first_diff(fresh['records'], after['records'])}",
                            {"job": job}))
                break
    return out


def fresh_history_checks(run: core.Run, tier: str) -> None:
    jobs = history_jobs()
    for j in jobs:
        j["details"] = ["hash", "all"] if tier == "quick" else list(DETAILS)
    n = 0
    for res in pmap(history_pair, jobs, chunk=1):
        for key, what, rep in res:
            if key == "__machinery__":
                raise core.MachineryError(f"history child failed: {what}")
            run.violation(key, what, rep)
        n += 1
    run.extra["fresh_process_history_jobs"] = n
    run.evaluations += n


def _replay(run: core.Run, cfg: str, **kw):
    res, path = tlc.emit_cases("MC_TraceStream", cfg, **kw)
    run.add_tlc(res, count_states=False)
    n = 0
    try:
        for r in pmap(replay_chunk, tlc.iter_emitted(path), chunk=250):
            n += r["n"]
            run.nontrivial += r["fails"]
            run.extra["with_sweep_nodes"] = run.extra.get("with_sweep_nodes", 0) + r["has_sweep"]
            for key, what, rep in r["viol"]:
                run.violation(key, what, rep)
    finally:
        try:
            os.unlink(path)
        except OSError:
            pass
    if n == 0:
        raise core.MachineryError(f"no cases emitted by {cfg}")
    run.evaluations += n
    run.traces_validated += n


def replay_one(payload):
    from .. import seams
    seams.setup()
    if "job" in payload:
        r = history_pair([payload["job"]])
        for key, what, _ in r:
            print(f"VIOLATION property=C10 replay=<given>\n  {key}\n  {what}")
        return 1 if r else 0
    r = replay_chunk([payload["case"]] * 2)
    for key, what, _ in r["viol"]:
        print(f"VIOLATION property=C10 replay=<given>\n  {key}\n  {what}")
    return 1 if r["viol"] else 0


def check(tier: str) -> int:
    run = core.Run("C10", tier)
    run.rule = ("cases = closed behaviours of TraceStream.tla; each is run untraced, traced, traced again (fresh Pipeline), "
                "twice through one reused Pipeline object, and again after the worker's other history; non-trivial = failing runs")
    run.assumptions = ["volatile fields removed before comparison: run_id, timestamp, seq, identity.run_id, timing.*",
                       "payload types whose repr() mutates them are out of scope"]
    tlc_checks(run, tier)
    seed = core.seed()
    locale_check(run)
    staged_metadata_check(run)
    for key, what, rep in hostile_payloads():
        run.violation(key, what, rep)
    fresh_history_checks(run, tier)
    _replay(run, "TraceStream.full1.emit")
    if tier == "quick":
        _replay(run, "TraceStream.sim.emit", simulate="num=1200", depth=24, seed=seed + 9)
    else:
        _replay(run, "TraceStream.full2.emit")
        _replay(run, "TraceStream.trace3.emit")
        _replay(run, "TraceStream.trace4.emit", timeout=3000)
        _replay(run, "TraceStream.sim.emit", simulate="num=8000", depth=24, seed=seed + 9, timeout=3000)
    if run.extra.get("with_sweep_nodes", 0) == 0:
        raise core.MachineryError("vacuity: no program with a sweep node was replayed")
    run.exhaustive = True
    return run.finish()
