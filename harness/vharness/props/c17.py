"""C17 -- the CLI never executes a configuration its pre-flight checks reject.

TLC: Cli.tla models `semantiva run` gate by gate (args, load, override, parse, inspect/validate,
context, --validate, components, run-space expansion, pre-flight of required keys, dry runs,
launch, run loop) over all scenarios = (one documented defect or none) x flag combinations x
planned runs x failing run index x traced; NoExecBeforeGates, ExitTable, StopAfterFailure are
checked and every terminal behaviour is emitted.  Each is concretised into a YAML file + argv
(several concrete shapes per defect class, chosen by hash), run through semantiva.cli.main
in-process (a sample in fresh subprocesses), and exit code, processor call log, sink file and
trace directory are compared with the spec's prediction.  The `--set` dimension is c17_override.py
(Override.tla: the effective configuration is what the gates judge and what runs)."""
from __future__ import annotations

import contextlib
import gc
import io
import json
import os
import shutil
import subprocess
import sys
import tempfile
import zlib
from pathlib import Path
from typing import Any, Dict, List, Optional, Tuple

import yaml

from .. import core, tlc
from ..pool import pmap

HARNESS_DIR = str(Path(__file__).resolve().parents[2])


def concretise(sc: Dict[str, Any], tmp: Path, h: int) -> Tuple[List[str], Dict[str, Any]]:
    """Scenario -> (argv, info). Writes the YAML (and nothing else) under tmp."""
    d = sc["defect"]
    out_txt = tmp / "out.txt"
    nodes: List[Dict[str, Any]] = [
        {"processor": "FloatValueDataSource"},                      # value: required context key
        {"processor": "VTouchOperation"},                           # execution witness
        {"processor": "VInterruptOperation"},                       # raises KeyboardInterrupt when trigger > 0
        {"processor": "FloatMultiplyOperation"},                    # factor: required context key
        {"processor": "FloatTxtFileSaver", "parameters": {"path": str(out_txt)}},
    ]
    doc: Dict[str, Any] = {"extensions": ["semantiva-examples", "verif_ext"], "pipeline": {"nodes": nodes}}
    argv = ["run", str(tmp / "p.yaml")]
    ctx = {"value": "1.0"}
    planned, fail_at = sc["planned"], sc["failAt"]
    if sc["traced"]:
        # directory mode (one file per run) or single-file mode (a path with an extension under the same directory)
        out_path = tmp / "trace" if h % 3 else tmp / "trace" / "all.ser.jsonl"
        doc["trace"] = {"driver": "jsonl", "output_path": str(out_path), "options": {"detail": ["hash", "all"][h % 2]}}
    if sc["runSpace"] == "ok":
        factors: List[Any] = [float(i + 2) for i in range(planned)]
        triggers = [0.0] * planned
        if fail_at and sc.get("failKind") == "interrupt":
            triggers[fail_at - 1] = 1.0
        elif fail_at:
            factors[fail_at - 1] = "bad"
        rs: Dict[str, Any] = {"combine": "combinatorial", "max_runs": 100,
                              "blocks": [{"mode": "by_position", "context": {"factor": factors, "trigger": triggers}}]}
        if h % 3 == 0:
            rs["dry_run"] = False          # the documented form spells the defaults out
        doc["run_space"] = rs
    else:
        ctx["factor"] = "bad" if (fail_at and sc.get("failKind") != "interrupt") else "2.0"
        if fail_at and sc.get("failKind") == "interrupt":
            ctx["trigger"] = "1.0"
    text: Optional[str] = None
    if d == "usage":
        argv = [["run"], ["run", str(tmp / "p.yaml"), "--no-such-flag"], []][h % 3]
    elif d == "file_missing":
        argv[1] = str(tmp / "does_not_exist.yaml")
    elif d == "yaml_invalid":
        text = ["pipeline: [unclosed", "pipeline:\n  nodes:\n - bad indent\n  x: : :", "- just\n- a list"][h % 3]
    elif d == "structure_invalid":
        if h % 2:
            doc.pop("pipeline")
            doc["nodes"] = nodes
        else:
            doc["pipeline"] = {"steps": nodes}
    elif d == "override_unknown":
        argv += ["--set", ["pipeline.nodes.9.processor=X", "pipeline.nope=1", "trace.driver=jsonl" if not sc["traced"] else "pipeline.nodes.0.nope=1"][h % 3]]
    elif d == "runspace_block_invalid":
        bad = [{"mode": "zip", "context": {"factor": [2.0]}}, {"mode": "by_position", "context": {"factor": 2.0}},
               {"mode": "by_position", "context": {"factor": [2.0]}, "source": {"format": "xml", "path": "a.xml"}}][h % 3]
        doc["run_space"]["blocks"] = [bad]
    elif d == "validation_fails":
        k = h % 6
        if k == 5:
            nodes.insert(2, {"processor": "FloatValueDataSource", "parameters": {"value": 2.0}})   # a data source fed with data
        elif k == 4:
            nodes[3]["parameters"] = {"bogus": None}        # an unknown parameter is unknown whatever its value (YAML null)
        elif k == 0:
            nodes[3]["parameters"] = {"bogus": 1.0}
        elif k == 1:
            nodes.insert(1, {"processor": "FloatCollectionSumOperation"})
        elif k == 2:
            nodes.insert(2, {"processor": "FloatCollectValueProbe"})             # probe without context_key
        else:
            nodes.insert(2, {"processor": "delete:value"})
            nodes.insert(3, {"processor": "rename:value:other"})                 # requires a deleted key
    elif d == "context_arg_malformed":
        argv += ["--context", "novalue"]
    elif d == "runspace_expansion_invalid":
        doc["run_space"]["blocks"] = [{"mode": "by_position", "context": {"factor": [2.0, 3.0], "value": [1.0]}}] if h % 2 else \
            [{"mode": "by_position", "context": {"factor": [2.0]}}, {"mode": "by_position", "context": {"factor": [3.0]}, "source": None}]
        if not h % 2:
            doc["run_space"]["blocks"] = [{"mode": "by_position", "context": {"factor": [2.0, 3.0]}},
                                          {"mode": "by_position", "context": {"other": [1.0]}}]
            doc["run_space"]["combine"] = "by_position"
        if h % 5 == 4:
            # THREE blocks, the same key declared by the first (inline) and by the third (a source column): not neighbours
            (tmp / "dup.csv").write_text("factor,extra\n10.0,1\n20.0,2\n")
            doc["run_space"]["blocks"] = [{"mode": "by_position", "context": {"factor": [2.0, 3.0]}},
                                          {"mode": "by_position", "context": {"trigger": [0.0, 0.0]}},
                                          {"mode": "by_position", "source": {"format": "csv", "path": "dup.csv"}}]
            doc["run_space"]["combine"] = "by_position"
        elif h % 3 == 2:
            # a row-wise source whose LATER row lacks a key that the pipeline needs (the first row is complete)
            (tmp / "rows.ndjson").write_text('{"factor": 2.0, "trigger": 0.0}\n{"factor": 3.0, "trigger": 0.0}\n{"trigger": 0.0}\n')
            doc["run_space"]["blocks"] = [{"mode": "by_position", "source": {"format": "ndjson", "path": "rows.ndjson"}}]
            doc["run_space"]["combine"] = "combinatorial"
    elif d == "runspace_over_cap":
        if h % 2 and planned >= 1:
            argv += ["--run-space-max-runs", str(planned - 1)]
        else:
            doc["run_space"]["max_runs"] = planned - 1
    elif d == "required_key_missing":
        # the key that is not supplied: `value` is needed by node 1; when a later node creates it too
        # (order-sensitive truth) it is still required
        k = h % 4
        if k == 1:
            nodes.append({"processor": "FloatCollectValueProbe", "context_key": "value"})
        if k in (0, 1):
            ctx.pop("value")
        elif k == 2:
            # two generated processors with one class name (Template_label) and different placeholders:
            # only the second one needs the key that is not supplied
            nodes.insert(2, {"processor": 'template:"r={value}":label'})
            nodes.append({"processor": 'template:"r={value}-{tag}":label'})
        else:
            nodes.append({"processor": "rename:tag:other"})        # `tag` is supplied by nobody
    elif d == "bad_attempt":
        argv += ["--run-space-attempt", ["0", "-3"][h % 2]]
    elif d == "runspace_source_missing":
        doc["run_space"]["blocks"].append({"mode": "by_position", "source": {"format": "csv", "path": "missing.csv"}})
    if sc.get("rsFile") and "run_space" in doc and argv and argv[0] == "run" and len(argv) > 1:
        # the plan lives in its own file (either `run_space: {...}` or the bare block); the pipeline file keeps a decoy
        # block that must be REPLACED, flags given on the command line apply to the plan from the file
        block = doc.pop("run_space")
        (tmp / "plan.yaml").write_text(yaml.safe_dump({"run_space": block} if h % 2 else block, sort_keys=False))
        if h % 3 == 0:
            doc["run_space"] = {"combine": "combinatorial", "max_runs": 1000,
                                "blocks": [{"mode": "by_position", "context": {"factor": [7.0] * 9, "trigger": [0.0] * 9}}]}
        argv += ["--run-space-file", str(tmp / "plan.yaml")]
    if d not in ("usage",) or len(argv) > 1:
        for k, v in ctx.items():
            if argv and argv[0] == "run" and len(argv) > 1:
                argv += ["--context", f"{k}={v}"]
    if sc["validate"]:
        argv.append("--validate")
    if sc["dryRun"]:
        argv.append("--dry-run")
    if sc["rsDryRun"]:
        argv.append("--run-space-dry-run")
    (tmp / "p.yaml").write_text(text if text is not None else yaml.safe_dump(doc, sort_keys=False))
    return argv, {"out_txt": out_txt, "trace": tmp / "trace"}


def run_cli(argv: List[str], cwd: Path, strict_warnings: bool = False) -> Tuple[Any, str, str]:
    """strict_warnings: the invocation happens in an interpreter that turns warnings into errors (python -W error /
    PYTHONWARNINGS=error): the gates and exit codes do not depend on the warning filters."""
    import warnings
    from semantiva import cli

    out, err = io.StringIO(), io.StringIO()
    old = os.getcwd()
    os.chdir(cwd)
    code: Any = None
    try:
        with contextlib.redirect_stdout(out), contextlib.redirect_stderr(err), warnings.catch_warnings():
            if strict_warnings:
                warnings.simplefilter("error")
            try:
                cli.main(list(argv))
                code = "returned"
            except SystemExit as e:
                code = e.code
            except BaseException as e:  # noqa: BLE001
                code = f"crash:{type(e).__name__}: {str(e)[:120]}"
    finally:
        os.chdir(old)
        gc.collect()
    return code, out.getvalue(), err.getvalue()


def observe(case: Dict[str, Any], *, subprocess_mode: bool = False) -> Dict[str, Any]:
    import verif_ext

    sc = case["sc"]
    h = zlib.crc32(json.dumps(sc, sort_keys=True).encode())
    tmp = Path(tempfile.mkdtemp(prefix="vcli-"))
    try:
        argv, info = concretise(sc, tmp, h)
        if subprocess_mode:
            env = dict(os.environ, PYTHONPATH=HARNESS_DIR + os.pathsep + os.environ.get("PYTHONPATH", ""))
            p = subprocess.run([sys.executable, "-c",
                                "import sys, verif_ext, semantiva.cli as c\n"
                                "try:\n    c.main(sys.argv[1:])\nexcept SystemExit as e:\n"
                                "    print('TOUCHES', sum(1 for x in verif_ext.CALL_LOG if x[0]=='VTouchOperation'))\n    raise\n",
                                *argv], cwd=tmp, env=env, capture_output=True, text=True, timeout=120)
            code, out, err = p.returncode, p.stdout, p.stderr
            touches = next((int(l.split()[1]) for l in out.splitlines() if l.startswith("TOUCHES")), 0)
        else:
            del verif_ext.CALL_LOG[:]
            code, out, err = run_cli(argv, tmp, strict_warnings=(h % 6 == 1))
            touches = sum(1 for x in verif_ext.CALL_LOG if x[0] == "VTouchOperation")
        trace_files = sorted(str(f.relative_to(tmp)) for f in info["trace"].rglob("*") if f.is_file()) if info["trace"].exists() else []
        records = []
        for f in trace_files:
            for line in (tmp / f).read_text().splitlines():
                if line.strip():
                    records.append(json.loads(line))
        return {"argv": argv, "code": code, "touches": touches, "sink": info["out_txt"].exists(),
                "sink_text": info["out_txt"].read_text() if info["out_txt"].exists() else None,
                "trace_files": trace_files, "records": records, "stdout": out[-400:], "stderr": err[-400:],
                "yaml": (tmp / "p.yaml").read_text()}
    finally:
        shutil.rmtree(tmp, ignore_errors=True)


def compare(case, obs) -> List[Tuple[str, str]]:
    sc = case["sc"]
    bad = []
    flags = "+".join(f for f in ("validate", "dryRun", "rsDryRun") if sc[f]) or "noflags"
    where = f"{sc['defect']}:{flags}"
    if obs["code"] != case["exit"]:
        bad.append((f"exit-code:{where}", f"expected exit {case['exit']}, got {obs['code']}"))
    if obs["touches"] != case["started"]:
        kind = "executed-despite-rejection" if case["started"] == 0 else "run-count"
        bad.append((f"{kind}:{where}", f"expected {case['started']} run(s) to execute nodes, processor call log shows {obs['touches']}"))
    if obs["sink"] != (case["completed"] > 0):
        bad.append((f"sink-file:{where}", f"sink file {'exists' if obs['sink'] else 'missing'} but {case['completed']} run(s) completed"))
    if case["started"] == 0 and not case["records"] and obs["trace_files"]:
        bad.append((f"trace-file-despite-rejection:{where}", f"no run started but trace files were written: {obs['trace_files']}"))
    if case["started"] > 0 and sc["traced"] and not obs["trace_files"]:
        bad.append((f"trace-missing:{where}", "runs executed with a trace driver configured but no trace file exists"))
    return bad


def replay_chunk(cases: List[Dict[str, Any]]):
    out = {"n": 0, "viol": [], "rejecting": 0, "by_defect": {}}
    for case in cases:
        obs = observe(case)
        out["n"] += 1
        d = case["sc"]["defect"]
        out["by_defect"][d] = out["by_defect"].get(d, 0) + 1
        out["rejecting"] += case["started"] == 0
        for key, msg in compare(case, obs):
            out["viol"].append((key, f"argv={obs['argv'][2:] if len(obs['argv']) > 2 else obs['argv']} scenario={case['sc']}: {msg}; stderr: {obs['stderr'][-200:]!r}",
                                {"case": case, "argv": obs["argv"], "yaml": obs["yaml"]}))
    return out


def replay_one(payload):
    from .. import seams
    from . import c17_override
    seams.setup()
    r = c17_override.replay_chunk([payload["override_case"]]) if "override_case" in payload else replay_chunk([payload["case"]])
    for key, what, _ in r["viol"]:
        print(f"VIOLATION property=C17 replay=<given>\n  {key}\n  {what}")
    return 1 if r["viol"] else 0


def tlc_check(run: core.Run, tier: str = "quick") -> None:
    cfg = "Cli.check" if tier == "quick" else "Cli.check5"
    res = tlc.run_tlc("Cli", cfg, coverage=True, timeout=1800)
    run.add_tlc(res)
    run.require_tlc_ok(res, cfg)
    run.constants = {"MaxRuns": 3 if tier == "quick" else 5}
    run.require_actions(["CheckGate", "ValidateFlag", "RsDryRun", "DryRun", "LaunchStart", "RunOk", "RunFails", "RunsDone", "LaunchEnd"])


def emitted_cases(tier: str = "quick") -> List[Dict[str, Any]]:
    res = tlc.run_tlc("Cli", "Cli.emit" if tier == "quick" else "Cli.emit5", workers=1, parse_emitted=True, timeout=1800)
    if not res.emitted:
        raise core.MachineryError("Cli.emit produced no cases")
    return res.emitted


def check(tier: str) -> int:
    from .. import seams

    seams.setup()
    run = core.Run("C17", tier)
    run.rule = ("cases = terminal behaviours of Cli.tla: (defect class or none) x {--validate, --dry-run, --run-space-dry-run} x "
                "run space present x planned runs 1..3 x failing run index x traced, each concretised (several shapes per class) and "
                "run through semantiva.cli.main; non-trivial = invocations that must not execute anything")
    run.assumptions = ["execution is witnessed by a call-logging processor placed before the failing node and by the sink file",
                       "--validate returns before run-space expansion (modelled as the code behaves: ValidateSkipsRunSpaceExpansion)",
                       "an operator interrupt is modelled by a node raising KeyboardInterrupt (exit 5)",
                       "--set: Override.tla names what the code does (OverrideNeverCreates, PythonIndexing, WholeSubtreeReplaced, AppliedInOrder)"]
    tlc_check(run, tier)
    cases = emitted_cases(tier)
    for r in pmap(replay_chunk, cases, chunk=25, tasks_per_child=3):
        run.evaluations += r["n"]
        run.nontrivial += r["rejecting"]
        bd = run.extra.setdefault("cases_by_defect", {})
        for k, v in r["by_defect"].items():
            bd[k] = bd.get(k, 0) + v
        for key, what, rep in r["viol"]:
            run.violation(key, what, rep)
    run.traces_validated = run.evaluations
    # fresh-process sample
    import random
    rng = random.Random(core.seed() + 17)
    sample = rng.sample(cases, 6 if tier == "quick" else 60)
    for case in sample:
        obs = observe(case, subprocess_mode=True)
        run.evaluations += 1
        for key, msg in compare(case, obs):
            run.violation(key + ":subprocess", f"(fresh process) argv={obs['argv']} scenario={case['sc']}: {msg}; stderr {obs['stderr'][-200:]!r}", {"case": case})
    # the --set dimension: Override.tla (configuration tree + override algebra + verdict on the effective configuration)
    from . import c17_override
    c17_override.run_part(run, tier)
    run.sample({"scenario": cases[0]["sc"], "expected": {k: cases[0][k] for k in ("exit", "started", "completed")}})
    run.exhaustive = True
    return run.finish()
