"""C16 -- every class the factories generate satisfies the framework's own contracts.

TLC: Factories.tla states the typing table a generated node class must satisfy given the
processor it wraps (WrapperMirrorsProcessor: sources take no data, sinks / probes / context
processors pass their input type through, sweep wrappers produce the collection and publish
<var>_values, slicers map collections, created / suppressed keys mirror the processor) and checks
it over every node configuration of the component library (every kind x slicer / sweep / IO
adapter / rename / delete / template / context-key-bound wrapping).  Each configuration is emitted
with its expected typing and built by the real node factory -- several times and in different
orders in one process -- and the node class and processor class are run through the repository's
own validate_component."""
from __future__ import annotations

import random
from typing import Any, Dict, List

from .. import core, tlc
from ..gamma import g_node, prog_key
from ..pool import pmap

EXTRA = [   # nested / context-key-bound combinations that the Library kinds do not name
    ({"processor": "slice:VPairOperation:FloatDataCollection", "parameters": {"a": 1.0}}, "coll", "coll", set()),
    ({"processor": "slice:VScaleProbe:FloatDataCollection", "context_key": "pp"}, "coll", "coll", {"pp"}),
    ({"processor": "VPairProbe", "context_key": "res", "derive": {"parameter_sweep": {"parameters": {"a": "t"}, "variables": {"t": {"values": [1.0, 2.0]}}}}},
     "float", "float", {"res", "t_values"}),
    ({"processor": "VPairOperation", "derive": {"parameter_sweep": {"parameters": {"a": "t * u"}, "variables": {"t": {"lo": 0, "hi": 1, "steps": 2}, "u": {"from_context": "us"}},
                                                                     "mode": "by_position", "broadcast": True, "collection": "FloatDataCollection"}}},
     "float", "coll", {"t_values", "u_values"}),
    ({"processor": "VPairSource", "derive": {"parameter_sweep": {"parameters": {"a": "t"}, "variables": {"t": {"values": [1.0]}}, "collection": "FloatDataCollection"}}},
     "none", "coll", {"t_values"}),
    ({"processor": "FloatTxtFileSaver", "parameters": {"path": "/dev/null"}}, "float", "float", set()),
    ({"processor": "FloatMockDataSink", "parameters": {"path": "x"}}, "float", "float", set()),
    ({"processor": "FloatBasicProbe", "context_key": "basic"}, "float", "float", {"basic"}),
    ({"processor": "template:\"{a}-{b}\":joined"}, "any", "any", {"joined"}),
    ({"processor": "rename:a.b:c.d"}, "any", "any", {"c.d"}),
    # components without a docstring (cls.__doc__ is None), plain and wrapped
    ({"processor": "VUndocSource"}, "none", "float", set()),
    ({"processor": "VUndocSink"}, "float", "float", set()),
    ({"processor": "VUndocPayloadSource"}, "none", "float", {"b"}),
    ({"processor": "VUndocPayloadSink"}, "float", "float", set()),
    ({"processor": "VUndocProbe", "context_key": "u"}, "float", "float", {"u"}),
    ({"processor": "VUndocOperation"}, "float", "float", set()),
    ({"processor": "slice:VUndocOperation:FloatDataCollection"}, "coll", "coll", set()),
    ({"processor": "slice:VUndocProbe:FloatDataCollection", "context_key": "u"}, "coll", "coll", {"u"}),
    # a sweep over labels (values that are not numbers)
    ({"processor": "VPairSource", "derive": {"parameter_sweep": {"parameters": {"a": "1 if t == 'low' else 2"},
                                                                  "variables": {"t": {"values": ["low", "high"]}}, "collection": "FloatDataCollection"}}},
     "none", "coll", {"t_values"}),
    ({"processor": "VPairOperation", "derive": {"parameter_sweep": {"parameters": {"a": "len_ok"}, "variables": {"len_ok": {"values": [None, 2.0, "x"]}},
                                                                     "collection": "FloatDataCollection"}}},
     "float", "coll", {"len_ok_values"}),
    ({"processor": "VPairSource", "derive": {"parameter_sweep": {"parameters": {"a": "min(t, 5)"}, "variables": {"t": {"values": [1.0, float("inf"), float("nan")]}},
                                                                  "collection": "FloatDataCollection"}}}, "none", "coll", {"t_values"}),
    # a swept probe whose context key is the very key its sweep publishes
    ({"processor": "VPairProbe", "context_key": "t_values", "derive": {"parameter_sweep": {"parameters": {"a": "t"}, "variables": {"t": {"values": [1.0, 2.0]}}}}},
     "float", "float", {"t_values"}),
    ({"processor": "VUndocSource", "derive": {"parameter_sweep": {"parameters": {"a": "t"}, "variables": {"t": {"values": [1.0]}}, "collection": "FloatDataCollection"}}},
     "none", "coll", {"t_values"}),
    # a swept probe over TWO variables whose context key is the published key of the SECOND one; variables whose names differ by
    # the "_values" suffix (gain / gain_values publish gain_values / gain_values_values)
    ({"processor": "VPairProbe", "context_key": "u_values", "derive": {"parameter_sweep": {"parameters": {"a": "t + u"}, "variables": {"t": {"values": [1.0, 2.0]}, "u": {"values": [3.0]}}}}},
     "float", "float", {"t_values", "u_values"}),
    ({"processor": "VPairSource", "derive": {"parameter_sweep": {"parameters": {"a": "gain + gain_values"}, "variables": {"gain": {"values": [1.0]}, "gain_values": {"values": [2.0, 3.0]}},
                                                                  "collection": "FloatDataCollection"}}}, "none", "coll", {"gain_values", "gain_values_values"}),
    # data types nested in another class (qualified name 'VLab.Reading'): plain, sliced and swept components
    ({"processor": "VReadingSource"}, "none", "reading", set()),
    ({"processor": "VReadingSink"}, "reading", "reading", set()),
    ({"processor": "VReadingProbe", "context_key": "np"}, "reading", "reading", {"np"}),
    ({"processor": "VReadingOperation"}, "reading", "reading", set()),
    ({"processor": "VReadingProbe", "context_key": "np", "derive": {"parameter_sweep": {"parameters": {"factor": "t"}, "variables": {"t": {"values": [1.0, 2.0]}}}}},
     "reading", "reading", {"np", "t_values"}),
    # model fitting: bound output key, default output key, the variable mapping with the key omitted / null / a nested path
    ({"processor": "ModelFittingContextProcessor", "parameters": {"fitting_model": "model:VSumModel", "context_key": "fitc"}}, "any", "any", {"fitc"}),
    ({"processor": "ModelFittingContextProcessor", "parameters": {"fitting_model": "model:VSumModel"}}, "any", "any", {"fit.parameters"}),
    ({"processor": "ModelFittingContextProcessor", "parameters": {"fitting_model": "model:PolynomialFittingModel:degree=2", "independent_var_key": "t_values",
                                                                   "dependent_var_key": "a", "context_key": None}}, "any", "any", {"fit.parameters"}),
    ({"processor": "ModelFittingContextProcessor", "parameters": {"fitting_model": "model:VSumModel", "independent_var_key": "t_values",
                                                                   "dependent_var_key": "stats.mean"}}, "any", "any", {"fit.parameters"}),
    ({"processor": "ModelFittingContextProcessor", "parameters": {"fitting_model": "model:VSumModel", "independent_var_key": "xs",
                                                                   "dependent_var_key": "stats.mean", "context_key": "fit.out"}}, "any", "any", {"fit.out"}),
]


def real_type(name: str):
    import verif_ext
    from semantiva.data_types import NoDataType
    from semantiva.examples.test_utils import FloatDataCollection, FloatDataType

    return {"none": NoDataType, "float": FloatDataType, "coll": FloatDataCollection,
            "reading": verif_ext.VLab.Reading, "readings": verif_ext.VLab.Readings}.get(name)


def examine(node_cfg: Dict[str, Any], exp_in: str, exp_out: str, exp_created, exp_suppressed=None, keep=None) -> List[tuple]:
    from semantiva.contracts.expectations import validate_component
    from semantiva.pipeline.nodes._pipeline_node_factory import _pipeline_node_factory

    bad: List[tuple] = []
    node = _pipeline_node_factory(dict(node_cfg))
    if keep is not None:
        keep.append((node, node_cfg))      # the node stays in use while later classes are generated
    for cls, what in ((type(node), "node class"), (type(node.processor), "processor class")):
        errs = [d for d in validate_component(cls) if d.severity == "error"]
        for d in errs:
            bad.append((f"contract:{d.code}:{what}", f"{what} {cls.__name__} generated for {node_cfg}: {d.code} {d.message[:160]}"))
    get_in = getattr(node, "input_data_type", None)
    get_out = getattr(node, "output_data_type", None)
    if exp_in == "any":
        if callable(get_in) and get_in() is not None:
            bad.append(("types:context-node", f"context-processor node declares an input type {get_in()} for {node_cfg}"))
    else:
        if not callable(get_in) or get_in() is not real_type(exp_in):
            bad.append((f"types:input", f"node for {node_cfg} declares input {get_in() if callable(get_in) else None}, expected {real_type(exp_in).__name__}"))
        if not callable(get_out) or get_out() is not real_type(exp_out):
            bad.append((f"types:output", f"node for {node_cfg} declares output {get_out() if callable(get_out) else None}, expected {real_type(exp_out).__name__}"))
    created = set(type(node).get_created_keys())
    if created != set(exp_created):
        bad.append(("created-keys", f"node for {node_cfg} declares created keys {sorted(created)}, processor semantics give {sorted(exp_created)}"))
    if exp_suppressed is not None and hasattr(type(node), "get_suppressed_keys"):
        sup = set(type(node).get_suppressed_keys())
        if sup != set(exp_suppressed):
            bad.append(("suppressed-keys", f"node for {node_cfg} declares suppressed keys {sorted(sup)}, expected {sorted(exp_suppressed)}"))
    # mirror, code vs code
    proc = node.processor
    p_in = getattr(type(proc), "input_data_type", None)
    if exp_in not in ("any", "none") and callable(p_in) and callable(get_in) and get_in() is not p_in():
        bad.append(("mirror:input", f"node input {get_in()} differs from its processor's {p_in()} for {node_cfg}"))
    return bad


def underscore_jobs() -> List[Dict[str, Any]]:
    """Processors given as CLASS OBJECTS whose name starts with an underscore (module-private helpers)."""
    import verif_ext
    return [{"name": "underscore", "cfg": {"processor": verif_ext._VScratchSource}, "in": "none", "out": "float", "created": []},
            {"name": "underscore", "cfg": {"processor": verif_ext._VScratchOperation, "parameters": {"factor": 2.0}}, "in": "float", "out": "float", "created": []},
            {"name": "underscore", "cfg": {"processor": verif_ext._VScratchProbe, "context_key": "us"}, "in": "float", "out": "float", "created": ["us"]}]


OO_SCRIPT = r"""
import json, sys
sys.path.insert(0, sys.argv[1])
from vharness import seams; seams.setup()
from vharness.props import c16
jobs = [{"name": "extra", "cfg": cfg, "in": i, "out": o, "created": sorted(cr)} for cfg, i, o, cr in c16.EXTRA] + c16.underscore_jobs()
for p in ("FloatDataSource", "FloatPayloadSource", "FloatDataSink", "FloatPayloadSink", "FloatValueDataSource", "FloatMultiplyOperation"):
    jobs.append({"name": "plain", "cfg": {"processor": p}, "in": "none" if "Source" in p else "float", "out": "float", "created": []})
out = []
for j in jobs:
    try:
        bad = c16.examine(j["cfg"], j["in"], j["out"], j["created"])
    except Exception as exc:
        bad = [("factory-raises", f"{type(exc).__name__}: {exc} for {j['cfg']}")]
    out += [(k, m[:300]) for k, m in bad]
print("OO-RESULT " + json.dumps({"n": len(jobs), "docstrings_stripped": c16.examine.__doc__ is None, "viol": out}, default=str))
"""


def optimised_interpreter_check(run) -> None:
    """ENVIRONMENT: the same factories in an interpreter started with -OO (docstrings stripped, asserts removed): generated
    classes satisfy the catalogue there as well."""
    import json as _json
    import subprocess
    import sys
    from pathlib import Path
    hdir = str(Path(__file__).resolve().parents[2])
    p = subprocess.run([sys.executable, "-OO", "-c", OO_SCRIPT, hdir], capture_output=True, text=True, timeout=300)
    line = next((l for l in p.stdout.splitlines() if l.startswith("OO-RESULT ")), None)
    if line is None:
        raise core.MachineryError(f"-OO child produced no result: {p.stderr[-400:]}")
    res = _json.loads(line[len("OO-RESULT "):])
    run.evaluations += res["n"]
    run.extra["optimised_interpreter"] = {"configurations": res["n"], "violations": len(res["viol"])}
    for k, m in res["viol"]:
        run.violation(f"environment:python-OO:{k}", f"in an interpreter started with -OO: {m}", {"oo": True})


def chunk(jobs: List[Dict[str, Any]]):
    out = {"n": 0, "viol": []}
    rng = random.Random(len(jobs))
    jobs = list(jobs) + list(jobs)        # every configuration is generated at least twice per process
    rng.shuffle(jobs)
    kept: List[tuple] = []
    for j in jobs:
        out["n"] += 1
        try:
            bad = examine(j["cfg"], j["in"], j["out"], j["created"], j.get("suppressed"), keep=kept)
        except Exception as exc:
            bad = [("factory-raises", f"node factory raised {type(exc).__name__}: {exc} for {j['cfg']}")]
        for k, m in bad:
            out["viol"].append((k + ":" + j["name"], m, {"cfg": j["cfg"]}))
    # FAULT HISTORY: configurations of the same processors that the factory REJECTS (a misspelt parameter, a probe without
    # its context key) are submitted next -- what `semantiva inspect` does with a user's typo; the classes built above stay in use
    from semantiva.pipeline.nodes._pipeline_node_factory import _pipeline_node_factory
    for node, cfg in kept[:: max(1, len(kept) // 25)]:
        bad_cfg = dict(cfg)
        bad_cfg["parameters"] = dict(cfg.get("parameters") or {}, no_such_parameter_xyz=1)
        bad_cfg.pop("context_key", None)
        try:
            _pipeline_node_factory(bad_cfg)
        except Exception:
            pass
    # every class generated above is still in use: it must satisfy the catalogue NOW as well, after all the
    # later (often same-named) classes were generated and registered
    from semantiva.contracts.expectations import validate_component
    for node, cfg in kept:
        for cls, what in ((type(node), "node class"), (type(node.processor), "processor class")):
            for d in validate_component(cls):
                if d.severity == "error":
                    out["viol"].append((f"contract-after-later-generations:{d.code}:{what}",
                                        f"{what} {cls.__name__} generated for {cfg} no longer passes after later classes were generated: {d.code} {d.message[:160]}",
                                        {"cfg": cfg}))
    return out


def replay_one(payload):
    from .. import seams
    seams.setup()
    print("replay: re-run ./check C16 (configurations are enumerated, not sampled)")
    return 0


def check(tier: str) -> int:
    from .. import seams
    seams.setup()
    run = core.Run("C16", tier)
    run.rule = ("configurations = every node record of the component library (all kinds and wrappings of Pipeline.tla's node sets "
                "plus payload IO, parametrised probe) emitted by TLC with expected typing, plus 10 nested / dotted-key / file-sink "
                "combinations; each built >= 2 times per process in shuffled order and validated with validate_component; "
                "non-trivial = generated (non hand-written) classes examined")
    run.assumptions = ["'no error-level diagnostic' is judged by the repository's own validate_component",
                       "expected types/keys come from Library.tla (bound to run-time behaviour by C01)"]
    res = tlc.run_tlc("MC_Factories", "Factories.check", coverage=True, timeout=600)
    run.add_tlc(res)
    run.require_tlc_ok(res, "Factories.check")
    em = tlc.run_tlc("MC_Factories", "Factories.emit", workers=1, parse_emitted=True, timeout=600)
    jobs = []
    for c in em.emitted:
        if not c["constructible"]:
            continue
        jobs.append({"name": c["node"]["kind"], "cfg": g_node(c["node"]), "in": c["in"], "out": c["out"],
                     "created": c["created"], "suppressed": c["suppressed"]})
    for cfg, i, o, cr in EXTRA:
        jobs.append({"name": "extra", "cfg": cfg, "in": i, "out": o, "created": sorted(cr)})
    jobs += underscore_jobs()
    if len(jobs) < 40:
        raise core.MachineryError(f"too few configurations: {len(jobs)}")
    reps = 2 if tier == "quick" else 8
    batches = []
    rng = random.Random(core.seed() + 16)
    for r in range(reps * 4):
        js = list(jobs)
        rng.shuffle(js)
        batches.append(js)
    for res_ in pmap(lambda b: [chunk(x) for x in b], batches, chunk=1, tasks_per_child=2) if False else pmap(chunk_batches, batches, chunk=1, tasks_per_child=2):
        for r in res_:
            run.evaluations += r["n"]
            for k, m, rep in r["viol"]:
                run.violation(k, m, rep)
    optimised_interpreter_check(run)
    run.nontrivial = len(jobs) * 2
    run.traces_validated = run.evaluations
    run.extra["configurations"] = len(jobs)
    run.sample({"cfg": jobs[0]["cfg"], "expected": {k: jobs[0][k] for k in ("in", "out", "created")}})
    run.exhaustive = True
    return run.finish()


def chunk_batches(bs):
    return [chunk(b) for b in bs]
