"""C17, `--set` dimension -- the effective configuration is what the gates judge and what runs.

TLC: Override.tla models the configuration document as a tree, cli._apply_override as `SetAt`
(OverrideNeverCreates, PythonIndexing, WholeSubtreeReplaced, AppliedInOrder, RejectedMeansExit3),
and hands the node list the *resulting* tree denotes to Inspection.tla / Pipeline.tla for the
verdict (structure, validation, required keys, run).  Frame / read-your-write / shape / algebra
properties are checked on all states; every terminal behaviour (accepted sequences, one value per
rejected path) is emitted and replayed through semantiva.cli.main: YAML text of the base document,
one `--set path=value` per override (value spelled as YAML flow or JSON), `--context` assignments.
Compared: exit code and the sequence of data values the execution witnesses (VTouchOperation) saw --
empty whenever the spec says the invocation is rejected."""
from __future__ import annotations

import contextlib
import gc
import io
import json
import os
import shutil
import tempfile
import zlib
from pathlib import Path
from typing import Any, Dict, List, Tuple

import yaml

from .. import core, tlc
from ..pool import pmap

CLASS_OF = {"Src": "FloatValueDataSource", "SrcDef": "FloatValueDataSourceWithDefault", "Touch": "VTouchOperation",
            "Mul": "FloatMultiplyOperation", "MulDef": "FloatMultiplyOperationWithDefault", "Add": "FloatAddOperation",
            "Sq": "FloatSquareOperation", "Sum": "FloatCollectionSumOperation", "NoSuch": "NoSuchProcessorAnywhere"}


def g_tree(t: Dict[str, Any]) -> Any:
    """Abstract tree -> Python object."""
    k = t["t"]
    if k == "m":
        c = t["c"]
        return {} if isinstance(c, list) else {key: g_tree(v) for key, v in c.items()}
    if k == "l":
        return [g_tree(x) for x in t["c"]]
    if k == "n":
        return float(t["c"])
    if k == "s":
        return CLASS_OF.get(t["c"], t["c"])
    if k == "z":
        return None
    raise core.MachineryError(f"unknown tree tag {k}")


def spell(value: Any, h: int) -> str:
    """The text after `=`: JSON (a YAML subset) or YAML flow style, chosen by hash."""
    if h % 2:
        return json.dumps(value)
    text = yaml.safe_dump(value, default_flow_style=True, width=10 ** 6).strip()
    if text.endswith("\n..."):
        text = text[:-4].strip()
    return text


def concretise(case: Dict[str, Any], tmp: Path, h: int) -> List[str]:
    doc = g_tree(case["base"])
    doc = {"extensions": ["semantiva-examples", "verif_ext"], **doc}
    (tmp / "p.yaml").write_text(yaml.safe_dump(doc, sort_keys=False))
    argv = ["run", str(tmp / "p.yaml"), "--quiet"] if h % 3 else ["run", str(tmp / "p.yaml")]
    for i, ov in enumerate(case["applied"]):
        text = ".".join(ov["path"]) + "=" + spell(g_tree(ov["val"]), h + i)
        # argparse reads a separate argument that starts with "-" as an option: such a path needs the --set=... form
        argv += [f"--set={text}"] if text.startswith("-") or (h + i) % 5 == 0 else ["--set", text]
    for k, v in sorted((case["cx"] or {}).items()):
        argv += ["--context", f"{k}={float(v['v'])}"]
    return argv


def observe(case: Dict[str, Any]) -> Dict[str, Any]:
    import verif_ext
    from semantiva import cli

    h = zlib.crc32(json.dumps([case["base"], case["applied"], case["cx"]], sort_keys=True).encode())
    tmp = Path(tempfile.mkdtemp(prefix="vovr-"))
    old = os.getcwd()
    try:
        argv = concretise(case, tmp, h)
        del verif_ext.CALL_LOG[:]
        out, err = io.StringIO(), io.StringIO()
        os.chdir(tmp)
        with contextlib.redirect_stdout(out), contextlib.redirect_stderr(err):
            try:
                cli.main(list(argv))
                code: Any = "returned"
            except SystemExit as e:
                code = e.code
            except BaseException as e:  # noqa: BLE001
                code = f"crash:{type(e).__name__}: {str(e)[:120]}"
        seen = [x[1] for x in verif_ext.CALL_LOG if x[0] == "VTouchOperation"]
        return {"argv": argv[2:], "code": code, "seen": seen, "stderr": err.getvalue()[-300:],
                "yaml": (tmp / "p.yaml").read_text()}
    finally:
        os.chdir(old)
        shutil.rmtree(tmp, ignore_errors=True)
        gc.collect()


def compare(case: Dict[str, Any], obs: Dict[str, Any]) -> List[Tuple[str, str]]:
    exp = case["result"]
    bad = []
    why = exp["why"]
    n = len(case["applied"])
    if obs["code"] != exp["exit"]:
        bad.append((f"exit-code:set:{why}:{n}", f"expected exit {exp['exit']} ({why}), got {obs['code']}"))
    exp_seen = [float(v) for v in exp["seen"]]
    if obs["seen"] != exp_seen:
        kind = "executed-despite-rejection" if exp["exit"] == 3 else "effective-config-not-what-ran"
        bad.append((f"{kind}:set:{why}:{n}", f"expected the execution witnesses to see {exp_seen}, they saw {obs['seen']}"))
    return bad


def replay_chunk(cases: List[Dict[str, Any]]):
    out = {"n": 0, "viol": [], "rejecting": 0, "by_why": {}}
    for case in cases:
        obs = observe(case)
        out["n"] += 1
        w = case["result"]["why"]
        out["by_why"][w] = out["by_why"].get(w, 0) + 1
        out["rejecting"] += case["result"]["exit"] == 3
        for key, msg in compare(case, obs):
            out["viol"].append((key, f"argv={obs['argv']}: {msg}; stderr: {obs['stderr'][-200:]!r}",
                                {"override_case": case, "argv": obs["argv"], "yaml": obs["yaml"]}))
    return out


def _keep(c: Dict[str, Any], tier: str) -> bool:
    # quick: all single overrides; of the pairs every 8th (by hash)
    return tier != "quick" or len(c["applied"]) < 2 or zlib.crc32(json.dumps(c["applied"], sort_keys=True).encode()) % 8 == 0


def run_part(run: core.Run, tier: str) -> None:
    bw = run.extra.setdefault("override_cases_by_verdict", {})
    for cfg in ("Override.one", "Override.two"):
        res = tlc.run_tlc("MC_Override", f"{cfg}.check", coverage=True, timeout=1800)
        run.add_tlc(res)
        run.require_tlc_ok(res, f"{cfg}.check")
        em, path = tlc.emit_cases("MC_Override", f"{cfg}.emit", timeout=1800)     # streamed: the cases are never all in memory
        run.add_tlc(em, count_states=False)
        n = 0
        try:
            for r in pmap(replay_chunk, (c for c in tlc.iter_emitted(path) if _keep(c, tier)), chunk=60, tasks_per_child=2):
                n += r["n"]
                run.nontrivial += r["rejecting"]
                for k, v in r["by_why"].items():
                    bw[k] = bw.get(k, 0) + v
                for key, what, rep in r["viol"]:
                    run.violation(key, what, rep)
        finally:
            try:
                os.unlink(path)
            except OSError:
                pass
        if n == 0:
            raise core.MachineryError(f"{cfg}.emit produced no cases")
        run.evaluations += n
        run.traces_validated += n
    run.require_actions(["ApplyOv", "Go"])
