"""Rendering of Identity.tla configuration texts into YAML and extraction of the code's identities."""
from __future__ import annotations

import json
from typing import Any, Dict, List, Optional, Tuple

import yaml

SPELL = ["{:.1f}", "{:.2f}", "+{:.1f}", "{:.1f}e+0"]


def expr_text(e, name: str = "t") -> str:
    if e[0] == "t":
        return name
    if e[0] == "c":
        return str(e[1])
    if e[0] == "abs":
        return f"abs({expr_text(e[1], name)})"
    if e[0] == "neg":
        return f"(-{expr_text(e[1], name)})"
    return f"({expr_text(e[1], name)} {e[0]} {expr_text(e[2], name)})"


def vname(sw) -> str:
    return sw.get("vname") or "t"


def swept_param(proc: str) -> str:
    return "factor" if "Multiply" in proc else "value"


STR_SPELL = ["k{}", '"k{}"', "'k{}'", "k{}"]


def scalar(v: int, sp: int, is_str: bool = False) -> str:
    if is_str:
        return STR_SPELL[sp].format(int(v))       # a string value: plain / double-quoted / single-quoted
    return SPELL[sp].format(float(v))


# value tokens that stand for non-finite numbers (YAML .inf / -.inf) in explicit sweep value lists
NONFINITE = {99991: float("inf"), 99993: float("-inf")}


def _date_token(x):
    # tokens 88801..88828 stand for the YAML dates 2024-02-01 .. 2024-02-28 (values that are not JSON types)
    import datetime as _d
    return _d.date(2024, 2, int(x) - 88800) if 88801 <= int(x) <= 88828 else None


def sweep_val(x, ints: bool):
    if _date_token(x) is not None:
        return _date_token(x)
    if int(x) in NONFINITE:
        return NONFINITE[int(x)]
    return int(x) if ints else float(x)


def sweep_val_text(x, ints: bool) -> str:
    if _date_token(x) is not None:
        return _date_token(x).isoformat()
    if int(x) in NONFINITE:
        return ".inf" if NONFINITE[int(x)] > 0 else "-.inf"
    return str(int(x)) if ints else f"{float(x):.1f}"


def meaning_node(n) -> Dict[str, Any]:
    """What yaml.safe_load must give back for this node text (render guard)."""
    out: Dict[str, Any] = {"processor": n["proc"]}
    params = {}
    for en in n["ps"]:
        if en["sub"]:
            params[en["k"]] = {s["k"]: float(s["v"]) for s in en["sub"]}
        else:
            params[en["k"]] = f"k{int(en['v'])}" if en.get("str") else float(en["v"])
    if params:
        out["parameters"] = params
    elif n.get("pempty") == 1:
        out["parameters"] = None
    elif n.get("pempty") == 2:
        out["parameters"] = {}
    sw = n["sweep"]
    if sw["on"]:
        variables = {vname(sw): {"values": [sweep_val(x, sw.get("ints")) for x in sw["vals"]]}}
        if sw.get("ctx2"):
            variables.update({"u": {"from_context": "ku"}, "w": {"from_context": "kw"}})
        rg = sw.get("rng") or {}
        if rg.get("on"):
            bound = int if rg.get("intsp") else float
            r = {"lo": bound(rg["lo"]), "hi": bound(rg["hi"]), "steps": int(rg["steps"])}
            if rg["expl"] or not rg["endp"]:
                r["endpoint"] = bool(rg["endp"])
            if rg["expl"] or rg["log"]:
                r["scale"] = "log" if rg["log"] else "linear"
            variables["r"] = r
        out["derive"] = {"parameter_sweep": {"parameters": {swept_param(n["proc"]): expr_text(sw["expr"], vname(sw))},
                                             "variables": variables,
                                             "mode": sw["mode"], "broadcast": bool(sw["bc"]), "collection": sw["coll"]}}
    return out


def render(cfg: List[Dict[str, Any]]) -> str:
    """Configuration text with the author's freedoms (key order, spelling, flow/block, quoting) applied."""
    lines = ["extensions: [semantiva-examples, verif_ext]", "pipeline:", "  nodes:"]
    anchors = {int(n["alias"]) for n in cfg if n.get("alias")}
    for idx, n in enumerate(cfg, 1):
        if n.get("alias"):
            lines.append(f"    - *n{int(n['alias'])}")
            continue
        node_start = len(lines)
        q = "'" if '"' in n["proc"] else '"'          # template:"...":key holds double quotes itself
        proc = f'{q}{n["proc"]}{q}' if n["quoted"] else n["proc"]
        first = f"    - processor: {proc}"
        body: List[str] = []
        if n["ps"]:
            anchored = {int(en["al"]) for en in n["ps"] if en.get("al")}

            def ent(en, ei=0):
                if en.get("al"):
                    return en["k"], f"*n{idx}e{int(en['al'])}", None
                if en["sub"]:
                    pre = f"&n{idx}e{ei} " if ei in anchored else ""
                    return en["k"], pre + "{" + ", ".join(f"{s['k']}: {scalar(s['v'], s['sp'])}" for s in en["sub"]) + "}", en["sub"]
                return en["k"], scalar(en["v"], en["sp"], en.get("str")), None
            if n["flow"]:
                body.append("      parameters: {" + ", ".join(f"{k}: {v}" for k, v, _ in (ent(en, ei) for ei, en in enumerate(n["ps"], 1))) + "}")
            else:
                body.append("      parameters:")
                for ei, en in enumerate(n["ps"], 1):
                    if en.get("al"):
                        body.append(f"        {en['k']}: *n{idx}e{int(en['al'])}")
                    elif en["sub"]:
                        body.append(f"        {en['k']}:" + (f" &n{idx}e{ei}" if ei in anchored else ""))
                        for s in en["sub"]:
                            body.append(f"          {s['k']}: {scalar(s['v'], s['sp'])}")
                    else:
                        body.append(f"        {en['k']}: {scalar(en['v'], en['sp'], en.get('str'))}")
        if not n["ps"] and n.get("pempty"):
            body.append("      parameters:" if n["pempty"] == 1 else "      parameters: {}")
        sw = n["sweep"]
        if sw["on"]:
            vals = ", ".join(sweep_val_text(x, sw.get("ints")) for x in sw["vals"])
            vtxt = f"{vname(sw)}: {{values: [{vals}]}}"
            if sw.get("ctx2"):
                extra = ["u: {from_context: ku}", "w: {from_context: kw}"]
                if sw.get("vorder"):
                    extra.reverse()
                vtxt = ", ".join(([extra[0], vtxt, extra[1]]) if sw.get("vorder") else ([vtxt] + extra))
            rg = sw.get("rng") or {}
            if rg.get("on"):
                parts = ([f"lo: {int(rg['lo'])}", f"hi: {int(rg['hi'])}"] if rg.get("intsp") else [f"lo: {float(rg['lo']):.1f}", f"hi: {float(rg['hi']):.1f}"]) \
                    + [f"steps: {int(rg['steps'])}"]
                if rg["expl"] or not rg["endp"]:
                    parts.append(f"endpoint: {'true' if rg['endp'] else 'false'}")
                if rg["expl"] or rg["log"]:
                    parts.append(f"scale: {'log' if rg['log'] else 'linear'}")
                vtxt += ", r: {" + ", ".join(parts) + "}"
            body += ["      derive:", "        parameter_sweep:",
                     f"          parameters: {{{swept_param(n['proc'])}: \"{expr_text(sw['expr'], vname(sw))}\"}}",
                     f"          variables: {{{vtxt}}}",
                     f"          mode: {sw['mode']}", f"          broadcast: {'true' if sw['bc'] else 'false'}",
                     f"          collection: {sw['coll']}"]
        # the position of `processor` among the node's keys is also free
        if n["flow"] and body:
            lines += ["    - " + body[0].strip()] + body[1:] + [f"      processor: {proc}"]
        else:
            lines += [first] + body
        if idx in anchors:      # `- &nK` on its own line, the mapping follows indented
            lines[node_start] = f"    - &n{idx}\n      " + lines[node_start][6:]
    text = "\n".join(lines) + "\n"
    loaded = yaml.safe_load(text)
    # an aliased node IS its anchor (it takes over the anchor's way of writing things, e.g. of an empty block)
    want = [meaning_node(cfg[int(n["alias"]) - 1]) if n.get("alias") else meaning_node(n) for n in cfg]
    if loaded["pipeline"]["nodes"] != want:
        raise RuntimeError(f"render guard: text does not load back to its meaning\n{text}\n{loaded['pipeline']['nodes']}\n{want}")
    return text


def identities(text: str) -> Dict[str, Any]:
    from semantiva.inspection import build_inspection_payload

    cfg = yaml.safe_load(text)
    payload = build_inspection_payload(cfg)
    return payload


def identities_inspect_way(text: str) -> Dict[str, Any]:
    """The way `semantiva inspect` gets there: the node list is inspected first, the payload is then built from the SAME
    configuration object and that inspection."""
    from semantiva.inspection import build_inspection_payload, build_pipeline_inspection

    cfg = yaml.safe_load(text)
    insp = build_pipeline_inspection(cfg["pipeline"]["nodes"])
    return build_inspection_payload(cfg, inspection=insp)


def summary(payload) -> Dict[str, Any]:
    return {"semantic_id": payload["identity"]["semantic_id"], "config_id": payload["identity"]["config_id"],
            "nodes": [(n["uuid"], n["node_semantic_id"]) for n in payload["pipeline_spec_canonical"]["nodes"]]}
