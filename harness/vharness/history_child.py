"""Child process of C10's history check: reads one job from stdin
   {"history": [[nodes, data, ctx], ...], "target": [nodes, data, ctx], "detail": str}
runs every history entry traced (in order), then the target traced, and prints the target's
normalised trace records as JSON.  Started as `python -m vharness.history_child` in a fresh interpreter."""
from __future__ import annotations

import json
import sys


def main() -> int:
    job = json.load(sys.stdin)
    from . import seams
    seams.setup()
    from .gamma import g_ctx, g_data
    from .props.c10 import normalise
    from .traced import run_traced

    for nodes, data, ctx in job["history"]:
        run_traced(nodes, g_data(data), g_ctx(ctx), detail=job["detail"])
    nodes, data, ctx = job["target"]
    tr = run_traced(nodes, g_data(data), g_ctx(ctx), detail=job["detail"])
    json.dump({"records": normalise(tr["records"]), "raised": tr["raised"]}, sys.stdout, default=str)
    return 0


if __name__ == "__main__":
    sys.exit(main())
