"""Concretisation (gamma) of abstract TLA+ values/nodes into real semantiva objects and
abstraction (alpha) of observed payloads into plain comparable Python values."""
from __future__ import annotations

from typing import Any, Dict, List, Optional, Tuple

import yaml

TEMPLATE_PREFIX = "~/$HOME/x="      # every rendered template starts with tokens that a shell (or os.path.expandvars / expanduser) would expand: the documented result is the literal text
NULL_CFG = -9999        # Library.tla NullCfg: a parameter configured as YAML null


def g_num(n: int) -> float:
    return float(n)


class _Absent:
    def __repr__(self):
        return "<absent>"


ABSENT = _Absent()


def g_val(v: Dict[str, Any]) -> Any:
    """Abstract context value record -> Python value (ABSENT for an absent key, None for a key holding None)."""
    t = v["t"]
    if t == "absent":
        return ABSENT
    if t == "null":
        return None
    if t == "n":
        return float(v["v"])
    if t == "l":
        return [float(x) for x in v["items"]]
    if t == "s":
        base = float(v["v"]) if v["bt"] == "n" else None if v["bt"] == "null" else [float(x) for x in v["items"]]
        return TEMPLATE_PREFIX * int(v["d"]) + str(base)
    raise ValueError(f"bad abstract value {v}")


def g_ctx(c: Dict[str, Any]) -> Dict[str, Any]:
    out = {}
    for k, v in c.items():
        pv = g_val(v)
        if pv is not ABSENT:
            out[k] = pv
    return out


def g_data_plain(d: Dict[str, Any]) -> Tuple:
    if d["ty"] == "none":
        return ("none",)
    if d["ty"] == "float":
        return ("float", float(d["v"]))
    return ("coll", [float(x) for x in d["items"]])


def g_data(d: Dict[str, Any]):
    from semantiva.data_types import NoDataType
    from semantiva.examples.test_utils import FloatDataCollection, FloatDataType

    if d["ty"] == "none":
        return NoDataType()
    if d["ty"] == "float":
        return FloatDataType(float(d["v"]))
    return FloatDataCollection.from_list([FloatDataType(float(x)) for x in d["items"]])


def a_data(obj: Any) -> Tuple:
    """Observed data object -> plain tuple."""
    from semantiva.data_types import NoDataType
    from semantiva.examples.test_utils import FloatDataCollection, FloatDataType

    if isinstance(obj, NoDataType):
        return ("none",)
    if isinstance(obj, FloatDataCollection):
        return ("coll", [x.data for x in obj.data])
    if isinstance(obj, FloatDataType):
        return ("float", obj.data)
    return ("other", type(obj).__name__, repr(obj)[:80])


def a_ctx(ctx: Any) -> Dict[str, Any]:
    d = ctx.to_dict() if hasattr(ctx, "to_dict") else dict(ctx)
    out = {}
    for k, v in d.items():
        if isinstance(v, list):
            out[k] = list(v)
        elif isinstance(v, dict):
            out[k] = dict(v)
        else:
            out[k] = v
    return out


def _cfg(node: Dict[str, Any]) -> Dict[str, float]:
    cfg = node.get("cfg") or {}
    if isinstance(cfg, list):  # ToJson of the empty function <<>>
        return {}
    return {k: (None if int(v) == NULL_CFG else float(v)) for k, v in cfg.items()}


_SIMPLE = {
    "Src": "FloatValueDataSource",
    "SrcDef": "FloatValueDataSourceWithDefault",
    "Src0": "FloatDataSource",
    "Mul": "FloatMultiplyOperation",
    "MulDef": "FloatMultiplyOperationWithDefault",
    "MulKw": "VKwScale",
    "MulKwReq": "VKwScaleReq",
    "Add": "FloatAddOperation",
    "Sq": "FloatSquareOperation",
    "Sum": "FloatCollectionSumOperation",
    "Sink": "FloatDataSink",
    "CtxW": "VCtxWriteOperation",
    "CtxWBad": "VCtxBadWriteOperation",
    "Boom": "VBoomOperation",
    "Abort": "VAbortOperation",
    "Touch": "VTouchOperation",
    "PSrc": "FloatPayloadSource",
    "PSrcInj": "VInjectPayloadSource",
    "PSink": "FloatPayloadSink",
    "SliceMul": "slice:FloatMultiplyOperation:FloatDataCollection",
    "SliceMulDef": "slice:FloatMultiplyOperationWithDefault:FloatDataCollection",
    "CtxWP": "VCtxScaleWrite",
    "IncIP": "VInPlaceIncrement",
    "SliceCtxW": "slice:VCtxScaleWrite:FloatDataCollection",
}

# final component of processor.ref expected in a SER for each kind (C07)
REF_CLASS = {
    "Src": "FloatValueDataSource", "SrcDef": "FloatValueDataSourceWithDefault", "Src0": "FloatDataSource",
    "Mul": "FloatMultiplyOperation", "MulDef": "FloatMultiplyOperationWithDefault", "Add": "FloatAddOperation",
    "Sq": "FloatSquareOperation", "Sum": "FloatCollectionSumOperation", "Sink": "FloatDataSink",
    "CtxW": "VCtxWriteOperation", "CtxWBad": "VCtxBadWriteOperation", "Boom": "VBoomOperation",
    "Abort": "VAbortOperation", "MulKw": "VKwScale", "MulKwReq": "VKwScaleReq", "Probe": "FloatCollectValueProbe", "CtxWP": "VCtxScaleWrite", "IncIP": "VInPlaceIncrement",
}


def g_node(node: Dict[str, Any]) -> Dict[str, Any]:
    """Abstract node record -> semantiva node configuration dict (JSON/YAML-safe)."""
    kind = node["kind"]
    cfg = _cfg(node)
    k1, k2 = node.get("k1", ""), node.get("k2", "")
    out: Dict[str, Any]
    if kind in _SIMPLE:
        out = {"processor": _SIMPLE[kind]}
    elif kind == "Probe":
        out = {"processor": "FloatCollectValueProbe"}
        if k1:
            out["context_key"] = k1
    elif kind == "ProbeP":
        out = {"processor": "VScaleProbe"}
        if k1:
            out["context_key"] = k1
    elif kind == "SliceProbe":
        out = {"processor": "slice:FloatCollectValueProbe:FloatDataCollection"}
        if k1:
            out["context_key"] = k1
    elif kind == "Rename":
        out = {"processor": f"rename:{k1}:{k2}"}
    elif kind == "Delete":
        out = {"processor": f"delete:{k1}"}
    elif kind == "CtxBind":
        out = {"processor": "VCtxBump", "parameters": {"context_key": k2}}
        if cfg:
            out["parameters"].update(cfg)
        return out
    elif kind == "FitM":
        # variable-mapped model fitting: x from t_values, y from a, result under k2 ("" = the default output key)
        out = {"processor": "ModelFittingContextProcessor",
               "parameters": {"fitting_model": "model:VSumModel", "independent_var_key": "t_values", "dependent_var_key": "a"}}
        if k2:
            out["parameters"]["context_key"] = k2
        if cfg:
            out["parameters"].update(cfg)
        return out
    elif kind == "Template":
        out = {"processor": f'template:"{TEMPLATE_PREFIX}{{{k1}}}":{k2}'}
    elif kind in ("SweepSrc", "SweepSrcCtx"):
        var = {"from_context": k1} if kind == "SweepSrcCtx" else {"values": [float(x) for x in node["sw"]]}
        out = {
            "processor": "FloatValueDataSource",
            "derive": {"parameter_sweep": {
                "parameters": {"value": "2 * t"},
                "variables": {"t": var},
                "collection": "FloatDataCollection",
            }},
        }
    elif kind in ("SweepMul", "SweepCtxW"):
        out = {
            "processor": "FloatMultiplyOperation" if kind == "SweepMul" else "VCtxScaleWrite",
            "derive": {"parameter_sweep": {
                "parameters": {"factor": "t"},
                "variables": {"t": {"values": [float(x) for x in node["sw"]]}},
                "collection": "FloatDataCollection",
            }},
        }
    else:
        raise ValueError(f"unknown abstract node kind {kind}")
    if cfg:
        out["parameters"] = cfg
    return out


def g_prog(prog: List[Dict[str, Any]]) -> List[Dict[str, Any]]:
    return [g_node(n) for n in prog]


def render_yaml(nodes: List[Dict[str, Any]], *, extra: Optional[Dict[str, Any]] = None,
                flow: bool = False) -> str:
    """Node dict list -> YAML document text; guarded: safe_load(text) must give back the meaning."""
    doc: Dict[str, Any] = {"extensions": ["semantiva-examples", "verif_ext"], "pipeline": {"nodes": nodes}}
    if extra:
        doc.update(extra)
    text = yaml.safe_dump(doc, default_flow_style=flow, sort_keys=False)
    if yaml.safe_load(text) != doc:
        raise RuntimeError("render guard: YAML text does not load back to its meaning")
    return text


def prog_key(prog: List[Dict[str, Any]]) -> str:
    """Canonical short text for a program (witness keys, samples)."""
    parts = []
    for n in prog:
        s = n["kind"]
        cfg = _cfg(n)
        if cfg:
            s += "(" + ",".join(f"{k}=" + ("null" if v is None else f"{v:g}") for k, v in sorted(cfg.items())) + ")"
        ks = [k for k in (n.get("k1", ""), n.get("k2", "")) if k]
        if ks:
            s += "[" + ">".join(ks) + "]"
        if n.get("sw"):
            s += "<" + ",".join(str(x) for x in n["sw"]) + ">"
        parts.append(s)
    return " | ".join(parts)
