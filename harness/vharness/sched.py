"""Deterministic line-granular thread scheduler for unmodified Python code.

Worker threads run under a sys.settrace function that turns every 'call'/'line' event inside
the traced source files into a yield point; exactly one thread runs at a time (baton passing
with semaphores), and a `chooser` decides which thread continues at every yield point.  Locks
of the module under test are replaced (by assigning a shim to the module's `threading` name)
with cooperative locks whose blocked acquire is itself a sequence of yield points, so the
scheduler can never deadlock on a paused lock owner."""
from __future__ import annotations

import sys
import threading
from typing import Any, Callable, Dict, List, Optional, Sequence

_real_threading = threading


class Scheduler:
    def __init__(self, files: Sequence[str], chooser: Callable[[List[int], int], int], max_steps: int = 20000):
        self.files = tuple(files)
        self.chooser = chooser
        self.max_steps = max_steps
        self.go: Dict[int, Any] = {}
        self.back = _real_threading.Semaphore(0)
        self.alive: List[int] = []
        self.blocked: Dict[int, bool] = {}
        self.current: Optional[int] = None
        self.tid_of: Dict[int, int] = {}      # thread ident -> logical id
        self.steps = 0
        self.trace_log: List[int] = []        # sequence of chosen logical ids (the schedule)
        self.errors: List[str] = []

    # -- called from worker threads ------------------------------------------------------
    def _me(self) -> Optional[int]:
        return self.tid_of.get(_real_threading.get_ident())

    def yield_point(self, blocked: bool = False) -> None:
        me = self._me()
        if me is None:
            return
        self.blocked[me] = blocked
        self.back.release()
        self.go[me].acquire()
        self.blocked[me] = False

    def _tracer(self, frame, event, arg):
        if frame.f_code.co_filename.endswith(self.files):
            if event in ("call", "line"):
                self.yield_point()
            return self._tracer
        return None

    def _run_thread(self, tid: int, fn: Callable[[], None]) -> None:
        self.tid_of[_real_threading.get_ident()] = tid
        self.go[tid].acquire()              # wait to be scheduled for the first time
        sys.settrace(self._tracer)
        try:
            fn()
        except BaseException as exc:  # noqa: BLE001
            self.errors.append(f"thread {tid}: {type(exc).__name__}: {exc}")
        finally:
            sys.settrace(None)
            self.alive.remove(tid)
            self.back.release()

    # -- controller ------------------------------------------------------------------------
    def run(self, fns: List[Callable[[], None]]) -> None:
        threads = []
        for tid, fn in enumerate(fns):
            self.go[tid] = _real_threading.Semaphore(0)
            self.alive.append(tid)
            self.blocked[tid] = False
            t = _real_threading.Thread(target=self._run_thread, args=(tid, fn), daemon=True)
            threads.append(t)
            t.start()
        while self.alive:
            self.steps += 1
            if self.steps > self.max_steps:
                self.errors.append("scheduler: step budget exhausted (livelock?)")
                break
            runnable = [t for t in self.alive if not self.blocked[t]] or list(self.alive)
            pick = self.chooser(runnable, self.steps)
            if pick not in runnable:
                pick = runnable[0]
            self.trace_log.append(pick)
            self.current = pick
            self.go[pick].release()
            self.back.acquire()
        for t in threads:
            t.join(timeout=2.0)


class CoopLock:
    """threading.Lock replacement whose contention is visible to the scheduler."""

    def __init__(self, sched_ref: Callable[[], Optional[Scheduler]]):
        self._held = False
        self._sched_ref = sched_ref

    def acquire(self, blocking: bool = True, timeout: float = -1) -> bool:
        s = self._sched_ref()
        while self._held:
            if not blocking:
                return False
            if s is None or s._me() is None:
                raise RuntimeError("CoopLock contended outside a scheduled thread")
            s.yield_point(blocked=True)
        self._held = True
        return True

    def release(self) -> None:
        self._held = False

    def locked(self) -> bool:
        return self._held

    def __enter__(self):
        self.acquire()
        return self

    def __exit__(self, *a):
        self.release()


class ThreadingShim:
    """Stands in for the `threading` module inside the module under test."""

    def __init__(self, sched_ref):
        self._sched_ref = sched_ref
        self.Thread = _real_threading.Thread
        self.Event = _real_threading.Event

    def Lock(self):
        return CoopLock(self._sched_ref)

    def RLock(self):
        return CoopLock(self._sched_ref)

    def __getattr__(self, name):
        return getattr(_real_threading, name)
