"""Traced execution seam shared by C06 / C07 / C10 / C13: run a node list with a JSONL trace
driver (subclassed to observe flush/close and file handles), read back the records, and
validate them against the registry-mapped JSON schemas (offline)."""
from __future__ import annotations

import copy
import json
import os
import shutil
import tempfile
import time
from pathlib import Path
from typing import Any, Dict, List, Optional

_VALIDATORS: Dict[str, Any] = {}


def schema_validators() -> Dict[str, Any]:
    """record_type -> jsonschema validator, built from semantiva/trace/schema/*.json."""
    if _VALIDATORS:
        return _VALIDATORS
    import jsonschema
    import semantiva.trace.schema as schema_pkg
    from referencing import Registry, Resource

    sdir = Path(schema_pkg.__file__).parent
    resources = []
    by_id = {}
    for f in sdir.glob("*.schema.json"):
        doc = json.loads(f.read_text())
        by_id[doc["$id"]] = doc
        resources.append((doc["$id"], Resource.from_contents(doc)))
    registry = Registry().with_resources(resources)
    reg = json.loads((sdir / "trace_registry_v1.json").read_text())
    for rtype, sid in reg["records"].items():
        cls = jsonschema.validators.validator_for(by_id[sid])
        _VALIDATORS[rtype] = cls(by_id[sid], registry=registry)
    return _VALIDATORS


def schema_errors(record: Dict[str, Any]) -> List[str]:
    v = schema_validators().get(record.get("record_type"))
    if v is None:
        return [f"record_type {record.get('record_type')!r} not in trace registry"]
    return [e.message[:200] for e in v.iter_errors(record)][:3]


def make_driver(output_path: str, detail: str):
    from semantiva.trace.drivers.jsonl import JsonlTraceDriver

    class RecordingJsonlDriver(JsonlTraceDriver):
        """Observes flush/close calls and every file handle the driver opens."""

        def __init__(self, *a, **kw):
            super().__init__(*a, **kw)
            self.handles: List[Any] = []
            self.calls: List[str] = []

        def _open_file(self, run_id):
            had = self._file
            super()._open_file(run_id)
            if self._file is not had and self._file is not None:
                self.handles.append(self._file)

        def _open_run_space_file(self, launch_id):
            had = self._run_space_file
            super()._open_run_space_file(launch_id)
            if self._run_space_file is not had and self._run_space_file is not None \
                    and self._run_space_file not in self.handles:
                self.handles.append(self._run_space_file)

        def flush(self):
            self.calls.append("flush")
            return super().flush()

        def close(self):
            self.calls.append("close")
            return super().close()

    return RecordingJsonlDriver(output_path, detail=detail)


def read_records(root: Path) -> List[Dict[str, Any]]:
    recs: List[Dict[str, Any]] = []
    files = [root] if root.is_file() else sorted(root.rglob("*.jsonl"))
    for f in files:
        for line in f.read_text().splitlines():
            if line.strip():
                recs.append(json.loads(line))
    return recs


def run_traced(nodes: List[Dict[str, Any]], data: Any, ctx: Dict[str, Any], *, detail: str = "hash",
               mode: str = "file", keep: bool = False, orchestrator=None, scramble: bool = False, prior_run: bool = False) -> Dict[str, Any]:
    """Execute with tracing; returns the observation of seams.run_nodes plus
    records, handles_closed, t0/t1 (epoch seconds bracketing the call)."""
    from .seams import run_nodes

    tmp = Path(tempfile.mkdtemp(prefix="vtrace-", dir=os.environ.get("VERIF_TMP", None)))
    target = tmp / "trace.ser.jsonl" if mode == "file" else tmp / "traces"
    if mode == "dir.dotted":            # an EXISTING directory whose name has a suffix is still a directory
        target = tmp / "traces.v2"
        target.mkdir()
    if prior_run and mode == "file":
        # FILE SYSTEM STATE: the trace file already exists (an earlier run of the same script wrote to it a moment ago);
        # the run under observation appends to it
        d0 = make_driver(str(target), "hash")
        run_nodes([{"processor": "FloatDataSource"}], None, {}, trace=d0)
        d0.close()
        time.sleep(0.002)
    drv = make_driver(str(target), detail)
    t0 = time.time()
    obs = run_nodes(nodes, data, ctx, trace=drv, orchestrator=orchestrator, scramble=scramble)
    t1 = time.time()
    obs["t0"], obs["t1"] = t0, t1
    obs["driver_calls"] = list(drv.calls)
    obs["handles"] = len(drv.handles)
    obs["handles_closed"] = all(h.closed for h in drv.handles)
    try:
        obs["records"] = read_records(target) if target.exists() else []
        if prior_run and mode == "file":
            starts = [i for i, r in enumerate(obs["records"]) if r.get("record_type") == "pipeline_start"]
            if len(starts) >= 2:
                obs["records"] = obs["records"][starts[-1]:]
    except Exception as exc:
        obs["records"] = []
        obs["read_error"] = f"{type(exc).__name__}: {exc}"
    if keep:
        obs["dir"] = tmp
    else:
        shutil.rmtree(tmp, ignore_errors=True)
    return obs


def shape(records: List[Dict[str, Any]], node_uuids: Optional[List[str]] = None) -> List[Dict[str, Any]]:
    """Abstract a record list to the TraceStream.tla vocabulary."""
    out = []
    for r in records:
        t = r.get("record_type")
        if t == "pipeline_start":
            out.append({"t": "start"})
        elif t == "pipeline_end":
            out.append({"t": "end", "status": (r.get("summary") or {}).get("status")})
        elif t == "ser":
            nid = (r.get("identity") or {}).get("node_id")
            idx = (node_uuids.index(nid) + 1) if node_uuids and nid in node_uuids else -1
            out.append({"t": "ser", "node": idx, "status": r.get("status")})
        else:
            out.append({"t": str(t)})
    return out
