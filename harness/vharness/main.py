"""Entry point: ./check CNN [--tier quick|thorough] [--replay FILE]"""
from __future__ import annotations

import argparse
import importlib
import json
import os
import sys

from . import core


def main(argv=None) -> int:
    ap = argparse.ArgumentParser(prog="check")
    ap.add_argument("pid")
    ap.add_argument("--tier", default=os.environ.get("VERIF_TIER", "quick"), choices=["quick", "thorough"])
    ap.add_argument("--replay")
    args = ap.parse_args(argv)
    pid = args.pid.upper()
    try:
        mod = importlib.import_module(f"vharness.props.{pid.lower()}")
    except ModuleNotFoundError as exc:
        print(f"no check module for {pid}: {exc}", file=sys.stderr)
        return 2
    if args.replay:
        payload = json.load(open(args.replay))
        fn = getattr(mod, "replay_one", None)
        if fn is None:
            print(f"{pid} has no replay support", file=sys.stderr)
            return 2
        return core.run_check(lambda _t: fn(payload.get("replay", payload)), args.tier)
    return core.run_check(mod.check, args.tier)


if __name__ == "__main__":
    sys.exit(main())
