"""Thin driver around TLC: run a (module, cfg) pair under a timeout, parse the
statistics / coverage / PrintT emissions, and clean the metadir.

All TLA+ modules live flat in /verif/spec, all configs in /verif/mc.  TLC is
always started with cwd=/verif/spec so EXTENDS resolves without -I tricks.
"""
from __future__ import annotations

import json
import os
import re
import shutil
import subprocess
import time
import uuid
from dataclasses import dataclass, field
from pathlib import Path
from typing import Any, Dict, Iterator, List, Optional

ROOT = Path(__file__).resolve().parents[2]
SPEC = ROOT / "spec"
MC = ROOT / "mc"
WORK = ROOT / ".work"

TLA_CP = "/opt/veriftools/tla/tla2tools.jar:/opt/veriftools/tla/CommunityModules-deps.jar"


class TLCError(RuntimeError):
    """Machinery failure (exit 2 class): TLC crashed, parse error, timeout."""


@dataclass
class TLCResult:
    cmd: str
    rc: int
    wall_s: float
    stdout: str
    generated: int = 0
    distinct: int = 0
    depth: int = 0
    violated: Optional[str] = None      # name of violated invariant/property, if any
    error_trace: str = ""
    coverage: Dict[str, int] = field(default_factory=dict)   # action -> distinct states found
    emitted: List[Any] = field(default_factory=list)

    @property
    def ok(self) -> bool:
        return self.rc == 0 and self.violated is None


_RE_STATS = re.compile(
    r"(\d+) states generated, (\d+) distinct states found, (\d+) states left on queue"
)
_RE_DEPTH = re.compile(r"The depth of the complete state graph search is (\d+)")
_RE_INV = re.compile(r"Error: Invariant (\S+) is violated")
_RE_PROP = re.compile(r"Error: (?:Action|Temporal) propert(?:y|ies) (\S+)? ?(?:is|were) violated")
_RE_COV = re.compile(r"^<(\w+) line \d+, col \d+ to line \d+, col \d+ of module (\w+)>: (\d+):(\d+)", re.M)


def _parse_emitted(stdout: str) -> List[Any]:
    """PrintT(ToJson(x)) prints one TLA+ string literal per line: "...json...".
    TLA+ string escaping is a subset of JSON's, so json.loads twice."""
    out = []
    for line in stdout.splitlines():
        if len(line) > 2 and line[0] == '"' and line[-1] == '"' and line[1] in "{[":
            try:
                out.append(json.loads(json.loads(line)))
            except Exception:
                continue
    return out


def run_tlc(
    module: str,
    cfg: str,
    *,
    workers: int | str = 16,
    timeout: int = 600,
    coverage: bool = False,
    simulate: Optional[str] = None,
    depth: Optional[int] = None,
    seed: Optional[int] = None,
    env: Optional[Dict[str, str]] = None,
    deadlock: bool = False,
    dfs_queue: bool = False,
    parse_emitted: bool = False,
    expect_violation: bool = False,
    extra: Optional[List[str]] = None,
    heap: str = "6g",
    stdout_path: Optional[Path] = None,
) -> TLCResult:
    """Run TLC on spec/<module>.tla with mc/<cfg>."""
    cfg_path = (MC / cfg) if not os.path.isabs(cfg) else Path(cfg)
    if not cfg_path.suffix == ".cfg":
        cfg_path = cfg_path.with_name(cfg_path.name + ".cfg")
    if not cfg_path.exists():
        raise TLCError(f"missing cfg {cfg_path}")
    meta = WORK / f"tlc-{uuid.uuid4().hex[:10]}"
    meta.mkdir(parents=True, exist_ok=True)
    java = ["java", f"-Xmx{heap}", "-XX:+UseParallelGC", "-cp", TLA_CP]
    if dfs_queue:
        java.append("-Dtlc2.tool.queue.IStateQueue=StateDeque")
    cmd = java + [
        "tlc2.TLC",
        "-workers", str(workers),
        "-metadir", str(meta),
        "-noGenerateSpecTE",
        "-config", str(cfg_path),
    ]
    if not deadlock:
        cmd.append("-deadlock")
    if coverage:
        cmd += ["-coverage", "1"]
    if simulate is not None:
        cmd += ["-simulate", simulate]
    if depth is not None:
        cmd += ["-depth", str(depth)]
    if seed is not None:
        cmd += ["-seed", str(seed)]
    if extra:
        cmd += extra
    cmd.append(module)
    full_env = dict(os.environ)
    full_env.pop("JAVA_TOOL_OPTIONS", None)
    if env:
        full_env.update(env)
    t0 = time.time()
    try:
        if stdout_path is not None:
            with open(stdout_path, "w") as fh:
                proc = subprocess.run(cmd, cwd=str(SPEC), env=full_env, stdout=fh,
                                      stderr=subprocess.PIPE, text=True, timeout=timeout)
            # keep only non-emission lines (statistics, errors) in memory
            keep = []
            with open(stdout_path) as fh:
                for line in fh:
                    if not (line.startswith('"{') or line.startswith('"[')):
                        keep.append(line)
            proc.stdout = "".join(keep[-4000:])
        else:
            proc = subprocess.run(
                cmd, cwd=str(SPEC), env=full_env, capture_output=True, text=True, timeout=timeout
            )
    except subprocess.TimeoutExpired as exc:
        subprocess.run(["pkill", "-f", str(meta)], check=False)
        shutil.rmtree(meta, ignore_errors=True)
        raise TLCError(f"TLC timeout after {timeout}s: {module} {cfg}") from exc
    finally:
        pass
    wall = time.time() - t0
    shutil.rmtree(meta, ignore_errors=True)
    out = proc.stdout + ("\n" + proc.stderr if proc.stderr else "")
    res = TLCResult(cmd=" ".join(cmd[cmd.index("tlc2.TLC"):]), rc=proc.returncode, wall_s=wall, stdout=out)
    stats = _RE_STATS.findall(out)
    if stats:
        g, d, _ = stats[-1]
        res.generated, res.distinct = int(g), int(d)
    m = _RE_DEPTH.search(out)
    if m:
        res.depth = int(m.group(1))
    m = _RE_INV.search(out)
    if m:
        res.violated = m.group(1)
    else:
        m = _RE_PROP.search(out)
        if m:
            res.violated = m.group(1) or "property"
    if res.violated is None:
        mt = re.search(r"Error: Temporal propert(?:y|ies) (\S+)? ?(?:was|were) violated", out)
        if mt:
            res.violated = mt.group(1) or "temporal"
    if res.violated:
        i = out.find("Error:")
        res.error_trace = out[i:i + 6000]
    if coverage:
        for act, _mod, distinct, _gen in _RE_COV.findall(out):
            res.coverage[act] = res.coverage.get(act, 0) + int(distinct)
    if parse_emitted:
        res.emitted = _parse_emitted(proc.stdout)
    # Anything that is neither clean success nor a property violation is machinery failure
    if proc.returncode != 0 and res.violated is None:
        if "Error:" in out or "Exception" in out or not stats:
            tail = out[-3000:]
            raise TLCError(f"TLC failed rc={proc.returncode} on {module}/{cfg}:\n{tail}")
    if res.violated and not expect_violation:
        pass  # caller decides
    return res


def sany(module: str) -> None:
    proc = subprocess.run(
        ["java", "-cp", TLA_CP, "tla2sany.SANY", f"{module}.tla"],
        cwd=str(SPEC), capture_output=True, text=True, timeout=120,
    )
    if proc.returncode != 0 or "*** Errors" in proc.stdout or "Fatal" in proc.stdout or "Could not" in proc.stdout:
        raise TLCError(f"SANY failed for {module}:\n{proc.stdout[-3000:]}\n{proc.stderr[-1000:]}")


def iter_emitted(path: Path) -> Iterator[Any]:
    """Stream the PrintT(ToJson(..)) lines of a TLC stdout file."""
    with open(path) as fh:
        for line in fh:
            line = line.rstrip("\n")
            if len(line) > 2 and line[0] == '"' and line[-1] == '"' and line[1] in "{[":
                try:
                    yield json.loads(json.loads(line))
                except Exception:
                    continue


def emit_cases(module: str, cfg: str, *, timeout: int = 900, simulate: Optional[str] = None,
               depth: Optional[int] = None, seed: Optional[int] = None) -> tuple:
    """Run an emission config single-worker, return (TLCResult, path of stdout file)."""
    WORK.mkdir(parents=True, exist_ok=True)
    out = WORK / f"emit-{uuid.uuid4().hex[:10]}.out"
    res = run_tlc(module, cfg, workers=1, timeout=timeout, simulate=simulate, depth=depth,
                  seed=seed, stdout_path=out)
    return res, out
