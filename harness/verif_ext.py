"""Concrete half of the verification component library (extension module).

Loaded either by `ProcessorRegistry.register_modules("verif_ext")` (harness, in-process)
or through `extensions: ["verif_ext"]` in a YAML file (CLI runs, PYTHONPATH=/verif/harness).
Every processor appends to CALL_LOG so "which processors ran, in which order" is
observable without touching the repository.
"""
from __future__ import annotations

from typing import Any, List

from semantiva.context_processors import ContextType
from semantiva.data_io import DataSource, PayloadSource
from semantiva.data_processors import DataOperation, DataProbe  # noqa: F401
from semantiva.examples.test_utils import (
    FloatDataCollection,
    FloatDataType,
    FloatOperation,
    FloatProbe,
)
from semantiva.pipeline import Payload

CALL_LOG: List[Any] = []


class VAbort(BaseException):
    """KeyboardInterrupt-class abort used to model a BaseException crash point."""


class VCtxWriteOperation(FloatOperation):
    """Write the input value under context key 'w' and return value + 1."""

    @classmethod
    def context_keys(cls):
        return ["w"]

    def _process_logic(self, data):
        CALL_LOG.append(("VCtxWriteOperation", data.data))
        self._notify_context_update("w", data.data)
        return FloatDataType(data.data + 1.0)


class VCtxBadWriteOperation(FloatOperation):
    """Declare context key 'w' but try to write the undeclared key 'u'."""

    @classmethod
    def context_keys(cls):
        return ["w"]

    def _process_logic(self, data):
        CALL_LOG.append(("VCtxBadWriteOperation", data.data))
        self._notify_context_update("u", data.data)
        return FloatDataType(data.data)


class VBoomOperation(FloatOperation):
    """Always raise ValueError."""

    def _process_logic(self, data):
        CALL_LOG.append(("VBoomOperation", data.data))
        raise ValueError("boom", frozenset({1}), b"\xff")      # exception arguments need not be JSON values


class VAbortOperation(FloatOperation):
    """Always raise a BaseException subclass (abort)."""

    def _process_logic(self, data):
        CALL_LOG.append(("VAbortOperation", data.data))
        raise VAbort()      # no message: str(exc) == "" (like KeyboardInterrupt())


class VAffineOperation(FloatOperation):
    """Return data * a + b (b defaults to 1.0)."""

    def _process_logic(self, data, a: float, b: float = 1.0):
        CALL_LOG.append(("VAffineOperation", data.data, a, b))
        return FloatDataType(data.data * a + b)


class VScaleProbe(FloatProbe):
    """Probe returning data * factor (factor defaults to 1.0)."""

    def _process_logic(self, data, factor: float = 1.0):
        CALL_LOG.append(("VScaleProbe", data.data, factor))
        return data.data * factor


from semantiva.workflows.fitting_model import FittingModel as _FittingModel


class VSumModel(_FittingModel):
    """A 'fitting model' with exact arithmetic: fit(x, y) = sum(y) + len(x) (a number, so that the context values of the
    models can hold it)."""

    def __init__(self, offset: float = 0.0):
        self.offset = offset

    def fit(self, x_values, y_values):
        CALL_LOG.append(("VSumModel", list(x_values), list(y_values)))
        return float(sum(y_values)) + len(x_values) + self.offset

    def __str__(self):
        return f"VSumModel(offset={self.offset})"


class VNapScale(FloatOperation):
    """data * factor; LATER sweep steps (larger factor) finish sooner: whatever evaluates steps side by side returns them
    out of order unless it restores the step order."""

    def _process_logic(self, data, factor: float = 1.0):
        import time as _t
        _t.sleep(max(0.0, 0.04 - 0.01 * float(factor)))
        return FloatDataType(data.data * factor)


class VNapProbe(FloatProbe):
    """Probe with the same timing profile as VNapScale."""

    def _process_logic(self, data, factor: float = 1.0):
        import time as _t
        _t.sleep(max(0.0, 0.04 - 0.01 * float(factor)))
        return data.data * factor


class VNapSource(DataSource):
    """Source with the same timing profile as VNapScale."""

    @classmethod
    def _get_data(cls, a: float = 1.0):
        import time as _t
        _t.sleep(max(0.0, 0.04 - 0.01 * float(a)))
        return FloatDataType(10.0 * float(a))

    @classmethod
    def output_data_type(cls):
        return FloatDataType


class VKwScale(FloatOperation):
    """data * factor with a KEYWORD-ONLY defaulted parameter (the style of docs/source/creating_components.rst)."""

    def _process_logic(self, data, *, factor: float = 2.0):
        CALL_LOG.append(("VKwScale", data.data, factor))
        return FloatDataType(data.data * factor)


class VKwScaleReq(FloatOperation):
    """data * factor with a keyword-only parameter that has no default."""

    def _process_logic(self, data, *, factor: float):
        CALL_LOG.append(("VKwScaleReq", data.data, factor))
        return FloatDataType(data.data * factor)


class VTouchOperation(FloatOperation):
    """Identity operation that records its invocation (used as execution witness)."""

    def _process_logic(self, data):
        CALL_LOG.append(("VTouchOperation", data.data))
        return FloatDataType(data.data)


class VInjectPayloadSource(PayloadSource):
    """PayloadSource producing 9.0 and injecting context key b = 7.0."""

    @classmethod
    def _get_payload(cls) -> Payload:
        CALL_LOG.append(("VInjectPayloadSource",))
        return Payload(FloatDataType(9.0), ContextType({"b": 7.0}))

    @classmethod
    def output_data_type(cls):
        return FloatDataType

    @classmethod
    def _injected_context_keys(cls):
        return ["b"]


def register() -> None:
    from semantiva.registry.processor_registry import ProcessorRegistry

    ProcessorRegistry.register_modules(["semantiva.examples.test_utils"])
    # register_modules is idempotent per module name; register classes explicitly so a
    # ProcessorRegistry.clear() followed by register() restores them as well
    import sys

    mod = sys.modules[__name__]
    for name in dir(mod):
        obj = getattr(mod, name)
        if isinstance(obj, type) and obj.__module__ == __name__ and name.startswith("V") and name not in ("VAbort", "VWeirdFloat", "VBadEq", "VHandle", "VLab"):
            ProcessorRegistry.register_processor(name, obj)


class VWeirdFloat(FloatDataType):
    """A FloatDataType whose user-visible hooks misbehave (tracing must tolerate them)."""

    def __len__(self):
        raise RuntimeError("len() not supported")

    def __repr__(self):
        raise RuntimeError("repr() not supported")

    def to_bytes(self):
        raise RuntimeError("to_bytes() not supported")


class VBadEq:
    """Context value whose __eq__ raises and which is not JSON serialisable."""

    def __eq__(self, other):
        raise RuntimeError("== not supported")

    def __hash__(self):
        return 7


class VNestedOperation(FloatOperation):
    """Multiply by gain; `opts` is a nested mapping parameter (identity at depth > 1)."""

    def _process_logic(self, data, gain: float = 1.0, opts: dict = None, opts2: dict = None):
        CALL_LOG.append(("VNestedOperation", data.data, gain))
        return FloatDataType(data.data * gain)


from semantiva.data_io import DataSource  # noqa: E402


class VPairSource(DataSource):
    """Source with a required and a defaulted parameter: 10 * a + b."""

    @classmethod
    def _get_data(cls, a: float, b: float = 1.0):
        a = float(a)          # a decimal numeral (a string-valued sweep expression) is accepted too
        CALL_LOG.append(("VPairSource", a, b))
        return FloatDataType(float(10 * a + b))

    @classmethod
    def output_data_type(cls):
        return FloatDataType


class VPairOperation(FloatOperation):
    """1000 * data + 10 * a + b."""

    def _process_logic(self, data, a: float, b: float = 1.0):
        a = float(a)
        CALL_LOG.append(("VPairOperation", data.data, a, b))
        return FloatDataType(float(1000 * data.data + 10 * a + b))


class VPairProbe(FloatProbe):
    """Probe returning 1000 * data + 10 * a + b."""

    def _process_logic(self, data, a: float, b: float = 1.0):
        a = float(a)
        CALL_LOG.append(("VPairProbe", data.data, a, b))
        return float(1000 * data.data + 10 * a + b)


class VInterruptOperation(FloatOperation):
    """Identity unless `trigger` > 0, then raises KeyboardInterrupt (operator interrupt)."""

    def _process_logic(self, data, trigger: float = 0.0):
        if trigger and float(trigger) > 0:
            raise KeyboardInterrupt()
        return FloatDataType(data.data)


# ---- components WITHOUT a docstring (cls.__doc__ is None): valid, and the generated node classes around
# ---- them must still declare types / keys and satisfy the contract catalogue (C16)
from semantiva.data_io import DataSink, PayloadSink  # noqa: E402


class VUndocSource(DataSource):
    @classmethod
    def _get_data(cls, a: float = 2.0):
        return FloatDataType(float(a))

    @classmethod
    def output_data_type(cls):
        return FloatDataType


class VUndocSink(DataSink[FloatDataType]):
    @classmethod
    def _send_data(cls, data: FloatDataType):
        pass

    @classmethod
    def input_data_type(cls):
        return FloatDataType


class VUndocPayloadSource(PayloadSource):
    @classmethod
    def _get_payload(cls) -> Payload:
        return Payload(FloatDataType(4.0), ContextType({"b": 1.0}))

    @classmethod
    def output_data_type(cls):
        return FloatDataType

    @classmethod
    def _injected_context_keys(cls):
        return ["b"]


class VUndocPayloadSink(PayloadSink[FloatDataType]):
    @classmethod
    def _send_payload(cls, payload: Payload):
        pass

    @classmethod
    def input_data_type(cls):
        return FloatDataType


class VUndocProbe(FloatProbe):
    def _process_logic(self, data, factor: float = 1.0):
        return data.data * factor


class VUndocOperation(FloatOperation):
    def _process_logic(self, data, factor: float = 1.0):
        return FloatDataType(data.data * factor)


class VLab:
    """Data types NESTED in another class (their __qualname__ is 'VLab.Reading', their __name__ 'Reading') and the
    components that use them."""

    class Reading(FloatDataType):
        """A float reading."""

    class Readings(FloatDataCollection):
        """A collection of readings."""


class VReadingSource(DataSource):
    """Source of a nested data type."""

    @classmethod
    def _get_data(cls, a: float = 2.0):
        return VLab.Reading(float(a))

    @classmethod
    def output_data_type(cls):
        return VLab.Reading


class VReadingSink(DataSink[FloatDataType]):
    """Sink of a nested data type."""

    @classmethod
    def _send_data(cls, data):
        pass

    @classmethod
    def input_data_type(cls):
        return VLab.Reading


class VReadingProbe(DataProbe):
    """Probe of a nested data type."""

    @classmethod
    def input_data_type(cls):
        return VLab.Reading

    def _process_logic(self, data, factor: float = 1.0):
        return data.data * factor


class VReadingOperation(DataOperation):
    """Operation on a nested data type."""

    @classmethod
    def input_data_type(cls):
        return VLab.Reading

    @classmethod
    def output_data_type(cls):
        return VLab.Reading

    def _process_logic(self, data, factor: float = 1.0):
        return VLab.Reading(data.data * factor)


class VHandle:
    """What a probe may hand back: an object with __slots__ (no __dict__), no serialisation hook, and a __repr__ that raises
    once the handle is closed."""
    __slots__ = ("name", "closed")

    def __init__(self, name):
        self.name, self.closed = name, True

    def __repr__(self):
        if self.closed:
            raise RuntimeError("I/O operation on closed handle")
        return f"VHandle({self.name!r})"


class VHandleProbe(FloatProbe):
    """Probe whose result is a VHandle (stored under the node's context key)."""

    def _process_logic(self, data):
        return VHandle(f"spool-{data.data}")


class _VScratchSource(DataSource):
    """A component whose class NAME starts with an underscore (a module-private helper used as a processor)."""

    @classmethod
    def _get_data(cls, a: float = 2.0):
        return FloatDataType(float(a))

    @classmethod
    def output_data_type(cls):
        return FloatDataType


class _VScratchOperation(FloatOperation):
    """Underscore-named operation."""

    def _process_logic(self, data, factor: float = 1.0):
        return FloatDataType(data.data * factor)


class _VScratchProbe(FloatProbe):
    """Underscore-named probe."""

    def _process_logic(self, data):
        return data.data


class VCtxScaleWrite(FloatOperation):
    """Return data * factor and write that value under context key 'w' (a context-writing operation WITH a parameter,
    so that it can be swept and sliced)."""

    @classmethod
    def context_keys(cls):
        return ["w"]

    def _process_logic(self, data, factor: float):
        CALL_LOG.append(("VCtxScaleWrite", data.data, factor))
        self._notify_context_update("w", data.data * factor)
        return FloatDataType(data.data * factor)


class VInPlaceIncrement(FloatOperation):
    """Add 1 to the payload IN PLACE and return the very object that was received (typical of array code)."""

    def _process_logic(self, data):
        CALL_LOG.append(("VInPlaceIncrement", data.data))
        data._data = data.data + 1.0
        return data


from semantiva.context_processors.context_processors import ContextProcessor  # noqa: E402


class VCtxBump(ContextProcessor):
    """Context processor with a bindable output key: writes a + 1 under CONTEXT_OUTPUT_KEY
    (bound per node through `parameters: {context_key: <key>}` -> with_context_key)."""

    CONTEXT_OUTPUT_KEY: str = "w"

    @classmethod
    def with_context_key(cls, key: str):
        """Return a subclass with CONTEXT_OUTPUT_KEY bound to ``key``."""
        safe = key.replace(".", "_")
        return type(f"{cls.__name__}_OUT_{safe}", (cls,), {
            "CONTEXT_OUTPUT_KEY": key,
            "__doc__": (cls.__doc__ or "") + f"\n\nBound output key: '{key}'.",
            "context_keys": classmethod(lambda kls: [kls.CONTEXT_OUTPUT_KEY]),
        })

    def _process_logic(self, *, a: float) -> None:
        CALL_LOG.append(("VCtxBump", a))
        self._notify_context_update(self.__class__.CONTEXT_OUTPUT_KEY, a + 1.0)

    @classmethod
    def context_keys(cls):
        return [cls.CONTEXT_OUTPUT_KEY]


class VRaise(FloatOperation):
    """Raises an exception chosen by `kind`: classes with NO argument at all (`raise KeyError`), with an empty message, with
    a non-text argument -- what handlers that format the failure must cope with."""

    def _process_logic(self, data, kind: str = "KeyError"):
        CALL_LOG.append(("VRaise", data.data, kind))
        table = {"KeyError": KeyError(), "IndexError": IndexError(), "AssertionError": AssertionError(), "StopIteration": StopIteration(),
                 "KeyErrorTuple": KeyError(("a", 1)), "OSError": OSError(2, "No such file", "x.dat"), "EmptyText": RuntimeError(""),
                 "UnicodeError": UnicodeDecodeError("utf-8", b"\xff", 0, 1, "invalid start byte")}
        raise table[kind]


class VSilentFail(FloatOperation):
    """Raises an exception that carries no message at all (str(exc) == "")."""

    def _process_logic(self, data):
        CALL_LOG.append(("VSilentFail", data.data))
        raise ValueError()
